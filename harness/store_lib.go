package main

import (
	"bytes"
	"fmt"

	"github.com/ipld/go-car/cmd/car/lib"
	carv2 "github.com/ipld/go-car/v2"
)

// checkLibraryAccepts: C05's last clause. The library's own inspection must accept a finished
// file, and the verifier must accept it whenever there is at least one root and every root
// is among the stored blocks. (Both hash the blocks, so they are only consulted when every
// stored block is a valid block.)
func checkLibraryAccepts(s *sState, path string, b []byte) string {
	for _, id := range s.Secs {
		if !alphaByID[id].Valid {
			return ""
		}
	}
	rd, err := carv2.NewReader(bytes.NewReader(b))
	if err != nil {
		return "carv2.NewReader rejects the finished file: " + err.Error()
	}
	st, err := rd.Inspect(true)
	if err != nil {
		return "Reader.Inspect(true) rejects the finished file: " + err.Error()
	}
	if int(st.BlockCount) != len(s.Secs) {
		return fmt.Sprintf("Inspect counts %d blocks, %d were stored", st.BlockCount, len(s.Secs))
	}
	rootsOK := len(s.Roots) > 0
	for _, r := range s.Roots {
		found := false
		for _, id := range s.Secs {
			if alphaByID[id].Cid.Equals(alphaByID[r].Cid) {
				found = true
			}
		}
		if !found {
			rootsOK = false
		}
	}
	if rootsOK {
		if err := lib.VerifyCar(path); err != nil {
			return "lib.VerifyCar rejects the finished file: " + err.Error()
		}
	}
	return ""
}
