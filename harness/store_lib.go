package main

import (
	"bytes"
	"fmt"
	"runtime"
	"sync/atomic"

	"github.com/ipld/go-car/cmd/car/lib"
	carv2 "github.com/ipld/go-car/v2"
	"github.com/ipld/go-car/v2/index"
	"github.com/multiformats/go-multicodec"
)

// checkLibraryAccepts: C05's last clause. The library's own inspection must accept a finished
// file, and the verifier must accept it whenever there is at least one root and every root
// is among the stored blocks. (Both hash the blocks, so they are only consulted when every
// stored block is a valid block.)
func checkLibraryAccepts(s *sState, path string, b []byte) string {
	for _, id := range s.Secs {
		if !alphaByID[id].Valid {
			return ""
		}
	}
	rd, err := carv2.NewReader(bytes.NewReader(b))
	if err != nil {
		return "carv2.NewReader rejects the finished file: " + err.Error()
	}
	st, err := rd.Inspect(true)
	if err != nil {
		return "Reader.Inspect(true) rejects the finished file: " + err.Error()
	}
	if int(st.BlockCount) != len(s.Secs) {
		return fmt.Sprintf("Inspect counts %d blocks, %d were stored", st.BlockCount, len(s.Secs))
	}
	rootsOK := len(s.Roots) > 0
	for _, r := range s.Roots {
		found := false
		for _, id := range s.Secs {
			if alphaByID[id].Cid.Equals(alphaByID[r].Cid) {
				found = true
			}
		}
		if !found {
			rootsOK = false
		}
	}
	if rootsOK {
		if err := lib.VerifyCar(path); err != nil {
			return "lib.VerifyCar rejects the finished file: " + err.Error()
		}
		// lib.VerifyCar opens the file a second time and leaves that handle to the garbage collector;
		// millions of calls in one process run into RLIMIT_NOFILE before the finalizers do. Not a
		// property of the archive format: collect explicitly now and then.
		if verifyCalls.Add(1)%512 == 0 {
			runtime.GC()
		}
	}
	return ""
}

var verifyCalls atomic.Int64

// checkFlattenVsRegenerate (C11, last sentence): the index a writing session flattens into
// the file and an index regenerated from the finished payload answer every lookup identically
// and are byte-identical whenever no two sections share a digest.
func checkFlattenVsRegenerate(s *sState, b []byte) string {
	if s.O.V1 || !s.Fin {
		return ""
	}
	h, err := refParseV2(b)
	if err != nil || h.Index == nil {
		return ""
	}
	opts := []carv2.Option{carv2.StoreIdentityCIDs(s.O.Ident)}
	if s.O.Codec == "sorted" {
		opts = append(opts, carv2.UseIndexCodec(multicodec.CarIndexSorted))
	}
	regen, err := carv2.GenerateIndex(bytes.NewReader(h.Payload), opts...)
	if err != nil {
		return "regenerating the index from the finished payload failed: " + err.Error()
	}
	var buf bytes.Buffer
	if _, err := index.WriteTo(regen, &buf); err != nil {
		return "serializing the regenerated index failed: " + err.Error()
	}
	// regenerating from the whole CARv2 file (the index generator finds the payload by the header) is the same index
	whole, err := carv2.GenerateIndex(bytes.NewReader(b), opts...)
	if err != nil {
		return "regenerating the index from the finished CARv2 file failed: " + err.Error()
	}
	var wbuf bytes.Buffer
	if _, err := index.WriteTo(whole, &wbuf); err != nil {
		return "serializing the index regenerated from the whole file failed: " + err.Error()
	}
	if !bytes.Equal(wbuf.Bytes(), buf.Bytes()) {
		return fmt.Sprintf("the index regenerated from the whole CARv2 file (%d bytes) differs from the one regenerated from its payload (%d bytes)", wbuf.Len(), buf.Len())
	}
	shared := false
	seen := map[string]bool{}
	for _, id := range s.Secs {
		d := alphaByID[id].DigI
		if seen[d] {
			shared = true
		}
		seen[d] = true
	}
	if !shared && !bytes.Equal(buf.Bytes(), h.Index) {
		return fmt.Sprintf("flattened index (%d bytes) and regenerated index (%d bytes) differ although no two sections share a digest", len(h.Index), buf.Len())
	}
	emb, err := index.ReadFrom(bytes.NewReader(h.Index))
	if err != nil {
		return "embedded index unreadable: " + err.Error()
	}
	for _, q := range alphabet {
		a, b2 := map[uint64]int{}, map[uint64]int{}
		e1 := emb.GetAll(q.Cid, func(o uint64) bool { a[o]++; return true })
		e2 := regen.GetAll(q.Cid, func(o uint64) bool { b2[o]++; return true })
		if (e1 == nil) != (e2 == nil) || len(a) != len(b2) {
			return fmt.Sprintf("lookup of %s differs between the flattened (%v, err=%v) and the regenerated index (%v, err=%v)", q.ID, a, e1, b2, e2)
		}
		for k, v := range a {
			if b2[k] != v {
				return fmt.Sprintf("lookup of %s differs between the flattened and the regenerated index", q.ID)
			}
		}
	}
	return ""
}
