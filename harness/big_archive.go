package main

// One archive beyond the 2^16 boundary: 70 000 sections. TLC cannot enumerate at this size; the
// specification's operators still give the oracle (IndexOffsets = where each section starts, Wrap =
// pragma ++ header ++ source ++ index over every section), evaluated here by the reference codec.
// Used by C03 (index generation / loading, all kinds) and C10 (the index WrapV1 appends).

import (
	"bytes"
	"encoding/binary"
	"fmt"
	"sync"

	"github.com/ipfs/go-cid"
	carv2 "github.com/ipld/go-car/v2"
	"github.com/ipld/go-car/v2/index"
	"github.com/multiformats/go-multicodec"
	mh "github.com/multiformats/go-multihash"
)

const bigSections = 70000

type bigSec struct {
	c   cid.Cid
	off uint64
}

var (
	bigOnce sync.Once
	bigFile []byte
	bigSecs []bigSec
)

func bigArchive() ([]byte, []bigSec) {
	bigOnce.Do(func() {
		var first cid.Cid
		var body bytes.Buffer
		secs := make([]bigSec, 0, bigSections)
		var raw [4]byte
		for i := 0; i < bigSections; i++ {
			binary.BigEndian.PutUint32(raw[:], uint32(i))
			h, _ := mh.Sum(raw[:], mh.SHA2_256, -1)
			c := cid.NewCidV1(cid.Raw, h)
			if i == 0 {
				first = c
			}
			secs = append(secs, bigSec{c, uint64(body.Len())})
			body.Write(refSection(c, raw[:]))
		}
		hdr := refHeader([]cid.Cid{first})
		for i := range secs {
			secs[i].off += uint64(len(hdr))
		}
		bigFile = append(hdr, body.Bytes()...)
		bigSecs = secs
	})
	return bigFile, bigSecs
}

// checkBigIndex: every section is found, exactly once, at its offset.
func checkBigIndex(idx index.Index, secs []bigSec) string {
	missing, wrong := 0, 0
	firstBad := ""
	for i, s := range secs {
		n := 0
		ok := false
		err := idx.GetAll(s.c, func(o uint64) bool {
			n++
			ok = ok || o == s.off
			return true
		})
		if err != nil || n == 0 {
			missing++
			if firstBad == "" {
				firstBad = fmt.Sprintf("section %d (offset %d): %v", i, s.off, err)
			}
		} else if !ok || n != 1 {
			wrong++
			if firstBad == "" {
				firstBad = fmt.Sprintf("section %d: %d offsets reported, the true one %d among them: %v", i, n, s.off, ok)
			}
		}
	}
	if missing+wrong > 0 {
		return fmt.Sprintf("%d of %d sections not found, %d with wrong offsets; first: %s", missing, len(secs), wrong, firstBad)
	}
	return ""
}

// bigIndexCases runs the index entry points on the large archive; returns (class suffix, message) pairs.
func bigIndexCases() [][2]string {
	file, secs := bigArchive()
	var out [][2]string
	for _, codec := range []multicodec.Code{multicodec.CarMultihashIndexSorted, multicodec.CarIndexSorted} {
		name := "mh"
		if codec == multicodec.CarIndexSorted {
			name = "sorted"
		}
		idx, err := carv2.GenerateIndex(bytes.NewReader(file), carv2.UseIndexCodec(codec))
		if err != nil {
			out = append(out, [2]string{"generate-error/" + name, err.Error()})
			continue
		}
		if m := checkBigIndex(idx, secs); m != "" {
			out = append(out, [2]string{"incomplete/GenerateIndex/" + name, m})
		}
		// through the serialized form, too
		var buf bytes.Buffer
		if _, err := index.WriteTo(idx, &buf); err == nil {
			if back, err := index.ReadFrom(&buf); err != nil {
				out = append(out, [2]string{"readfrom-error/" + name, err.Error()})
			} else if m := checkBigIndex(back, secs); m != "" {
				out = append(out, [2]string{"incomplete/ReadFrom/" + name, m})
			}
		}
	}
	ins := index.NewInsertionIndex()
	if err := carv2.LoadIndex(ins, &plainReader{bytes.NewReader(file)}); err != nil {
		out = append(out, [2]string{"load-error/insertion", err.Error()})
	} else if m := checkBigIndex(ins, secs); m != "" {
		out = append(out, [2]string{"incomplete/LoadIndex/insertion", m})
	}
	return out
}

// bigWrapCase: WrapV1 of the large archive = pragma, header, the source bytes, an index of every section.
func bigWrapCase() string {
	file, secs := bigArchive()
	var out bytes.Buffer
	if err := carv2.WrapV1(bytes.NewReader(file), &out); err != nil {
		return "WrapV1 failed: " + err.Error()
	}
	h, err := refParseV2(out.Bytes())
	if err != nil {
		return "wrapped file: " + err.Error()
	}
	if !bytes.Equal(h.Payload, file) {
		return "the payload of the wrapped file is not the source"
	}
	if h.Index == nil {
		return "no index in the wrapped file"
	}
	idx, err := index.ReadFrom(bytes.NewReader(h.Index))
	if err != nil {
		return "index of the wrapped file: " + err.Error()
	}
	return checkBigIndex(idx, secs)
}
