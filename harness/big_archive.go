package main

// One archive beyond the 2^16 boundary: 70 000 sections. TLC cannot enumerate at this size; the
// specification's operators still give the oracle (IndexOffsets = where each section starts, Wrap =
// pragma ++ header ++ source ++ index over every section), evaluated here by the reference codec.
// Used by C03 (index generation / loading, all kinds) and C10 (the index WrapV1 appends).

import (
	"bytes"
	"encoding/binary"
	"fmt"
	"io"
	"os"
	"path/filepath"
	"sync"

	blocks "github.com/ipfs/go-block-format"
	"github.com/ipfs/go-cid"
	carv1root "github.com/ipld/go-car"
	carv2 "github.com/ipld/go-car/v2"
	"github.com/ipld/go-car/v2/blockstore"
	"github.com/ipld/go-car/v2/index"
	"github.com/ipld/go-car/v2/storage"
	"github.com/multiformats/go-multicodec"
	mh "github.com/multiformats/go-multihash"
)

const bigSections = 70000

type bigSec struct {
	c   cid.Cid
	off uint64
}

var (
	bigOnce sync.Once
	bigFile []byte
	bigSecs []bigSec
)

func bigArchive() ([]byte, []bigSec) {
	bigOnce.Do(func() {
		var first cid.Cid
		var body bytes.Buffer
		secs := make([]bigSec, 0, bigSections)
		var raw [4]byte
		for i := 0; i < bigSections; i++ {
			binary.BigEndian.PutUint32(raw[:], uint32(i))
			h, _ := mh.Sum(raw[:], mh.SHA2_256, -1)
			c := cid.NewCidV1(cid.Raw, h)
			if i == 0 {
				first = c
			}
			secs = append(secs, bigSec{c, uint64(body.Len())})
			body.Write(refSection(c, raw[:]))
		}
		hdr := refHeader([]cid.Cid{first})
		for i := range secs {
			secs[i].off += uint64(len(hdr))
		}
		bigFile = append(hdr, body.Bytes()...)
		bigSecs = secs
	})
	return bigFile, bigSecs
}

// checkBigIndex: every section is found, exactly once, at its offset.
func checkBigIndex(idx index.Index, secs []bigSec) string {
	missing, wrong := 0, 0
	firstBad := ""
	for i, s := range secs {
		n := 0
		ok := false
		err := idx.GetAll(s.c, func(o uint64) bool {
			n++
			ok = ok || o == s.off
			return true
		})
		if err != nil || n == 0 {
			missing++
			if firstBad == "" {
				firstBad = fmt.Sprintf("section %d (offset %d): %v", i, s.off, err)
			}
		} else if !ok || n != 1 {
			wrong++
			if firstBad == "" {
				firstBad = fmt.Sprintf("section %d: %d offsets reported, the true one %d among them: %v", i, n, s.off, ok)
			}
		}
	}
	if missing+wrong > 0 {
		return fmt.Sprintf("%d of %d sections not found, %d with wrong offsets; first: %s", missing, len(secs), wrong, firstBad)
	}
	return ""
}

// bigIndexCases runs the index entry points on the large archive; returns (class suffix, message) pairs.
func bigIndexCases() [][2]string {
	file, secs := bigArchive()
	var out [][2]string
	for _, codec := range []multicodec.Code{multicodec.CarMultihashIndexSorted, multicodec.CarIndexSorted} {
		name := "mh"
		if codec == multicodec.CarIndexSorted {
			name = "sorted"
		}
		idx, err := carv2.GenerateIndex(bytes.NewReader(file), carv2.UseIndexCodec(codec))
		if err != nil {
			out = append(out, [2]string{"generate-error/" + name, err.Error()})
			continue
		}
		if m := checkBigIndex(idx, secs); m != "" {
			out = append(out, [2]string{"incomplete/GenerateIndex/" + name, m})
		}
		// through the serialized form, too
		var buf bytes.Buffer
		if _, err := index.WriteTo(idx, &buf); err == nil {
			if back, err := index.ReadFrom(&buf); err != nil {
				out = append(out, [2]string{"readfrom-error/" + name, err.Error()})
			} else if m := checkBigIndex(back, secs); m != "" {
				out = append(out, [2]string{"incomplete/ReadFrom/" + name, m})
			}
		}
	}
	ins := index.NewInsertionIndex()
	if err := carv2.LoadIndex(ins, &plainReader{bytes.NewReader(file)}); err != nil {
		out = append(out, [2]string{"load-error/insertion", err.Error()})
	} else if m := checkBigIndex(ins, secs); m != "" {
		out = append(out, [2]string{"incomplete/LoadIndex/insertion", m})
	}
	return out
}

// bigWrapCase: WrapV1 of the large archive = pragma, header, the source bytes, an index of every section.
func bigWrapCase() string {
	file, secs := bigArchive()
	var out bytes.Buffer
	if err := carv2.WrapV1(bytes.NewReader(file), &out); err != nil {
		return "WrapV1 failed: " + err.Error()
	}
	h, err := refParseV2(out.Bytes())
	if err != nil {
		return "wrapped file: " + err.Error()
	}
	if !bytes.Equal(h.Payload, file) {
		return "the payload of the wrapped file is not the source"
	}
	if h.Index == nil {
		return "no index in the wrapped file"
	}
	idx, err := index.ReadFrom(bytes.NewReader(h.Index))
	if err != nil {
		return "index of the wrapped file: " + err.Error()
	}
	return checkBigIndex(idx, secs)
}

// bigBlockCases: one block of 5 MiB (a four-byte length prefix; beyond any buffer a reader may start with)
// written by the read-write blockstore and read back by every kind of reader.
func bigBlockCases(dir string) [][2]string {
	var out [][2]string
	data := detBytes("five-mebibytes", 5<<20)
	h, _ := mh.Sum(data, mh.SHA2_256, -1)
	c := cid.NewCidV1(cid.Raw, h)
	small := alphaByID["b1"]
	path := filepath.Join(dir, "bigblock.car")
	os.Remove(path)
	defer os.Remove(path)
	bs, err := blockstore.OpenReadWrite(path, []cid.Cid{c})
	if err != nil {
		return [][2]string{{"open", err.Error()}}
	}
	blk, _ := blocks.NewBlockWithCid(data, c)
	if err := bs.Put(bg, mkBlock(small)); err != nil {
		out = append(out, [2]string{"put", err.Error()})
	}
	if err := bs.Put(bg, blk); err != nil {
		out = append(out, [2]string{"put", err.Error()})
	}
	if g, err := bs.Get(bg, c); err != nil || !bytes.Equal(g.RawData(), data) {
		out = append(out, [2]string{"ReadWrite.Get", fmt.Sprintf("Get of the 5 MiB block before Finalize: err=%v, bytes equal=%v", err, err == nil && bytes.Equal(g.RawData(), data))})
	}
	if err := bs.Finalize(); err != nil {
		return append(out, [2]string{"finalize", err.Error()})
	}
	file, _ := os.ReadFile(path)
	h2, err := refParseV2(file)
	if err != nil {
		return append(out, [2]string{"file", err.Error()})
	}
	want := append(refHeader([]cid.Cid{c}), append(refSection(small.Cid, small.Data), refSection(c, data)...)...)
	if !bytes.Equal(h2.Payload, want) {
		out = append(out, [2]string{"payload", "the payload is not header, small block, 5 MiB block"})
	}
	check := func(kind string, got []blocks.Block, err error) {
		if err != nil {
			out = append(out, [2]string{kind, "fails on a valid archive: " + err.Error()})
			return
		}
		if len(got) != 2 || !got[1].Cid().Equals(c) || !bytes.Equal(got[1].RawData(), data) || !bytes.Equal(got[0].RawData(), small.Data) {
			out = append(out, [2]string{kind, fmt.Sprintf("returned %d blocks; the 5 MiB block's bytes are not what was written", len(got))})
		}
	}
	for _, kind := range []string{"v2.BlockReader", "v2.BlockReader(plain io.Reader)", "root.CarReader", "root.LoadCar", "internal.CarReader", "internal.LoadCar(batch)"} {
		_, got, err := readAllWith(kind, file, h2.Payload, false)
		check(kind, got, err)
	}
	ro, err := blockstore.OpenReadOnly(path)
	if err != nil {
		out = append(out, [2]string{"OpenReadOnly", err.Error()})
	} else {
		if g, err := ro.Get(bg, c); err != nil || !bytes.Equal(g.RawData(), data) {
			out = append(out, [2]string{"ReadOnly.Get", fmt.Sprintf("err=%v", err)})
		}
		if n, err := ro.GetSize(bg, c); err != nil || n != len(data) {
			out = append(out, [2]string{"ReadOnly.GetSize", fmt.Sprintf("%d (err=%v)", n, err)})
		}
		ro.Close()
	}
	if sc, err := storage.OpenReadable(bytes.NewReader(file)); err == nil {
		if g, err := sc.Get(bg, c.KeyString()); err != nil || !bytes.Equal(g, data) {
			out = append(out, [2]string{"storage.Get", fmt.Sprintf("err=%v", err)})
		}
	}
	return out
}

// rootReaderLifecycle: root-module readers are independent objects: two of them alive at once (after a LoadCar)
// each yield their own archive, and a reader that reached the end keeps answering io.EOF.
func rootReaderLifecycle() string {
	a := Arch{Roots: []string{"b1"}, Secs: []string{"b1", "b4", "b9"}, Ver: 1}
	b := Arch{Roots: []string{"b4"}, Secs: []string{"b13", "b12", "b6", "b8"}, Ver: 1}
	if _, err := carv1root.LoadCar(bg, &batchOrderStore{}, bytes.NewReader(a.build())); err != nil {
		return "LoadCar: " + err.Error()
	}
	ra, err1 := carv1root.NewCarReader(bytes.NewReader(a.build()))
	rb, err2 := carv1root.NewCarReader(bytes.NewReader(b.build()))
	if err1 != nil || err2 != nil {
		return fmt.Sprintf("NewCarReader: %v %v", err1, err2)
	}
	var ga, gb []string
	for i := 0; i < 6; i++ {
		if x, err := ra.Next(); err == nil {
			if bl, ok := blockOfCid(x.Cid()); ok && bytes.Equal(bl.Data, x.RawData()) {
				ga = append(ga, bl.ID)
			} else {
				ga = append(ga, "?")
			}
		} else if err != io.EOF {
			return "reader A: " + err.Error()
		}
		if x, err := rb.Next(); err == nil {
			if bl, ok := blockOfCid(x.Cid()); ok && bytes.Equal(bl.Data, x.RawData()) {
				gb = append(gb, bl.ID)
			} else {
				gb = append(gb, "?")
			}
		} else if err != io.EOF {
			return "reader B: " + err.Error()
		}
	}
	if fmt.Sprint(ga) != fmt.Sprint(a.Secs) || fmt.Sprint(gb) != fmt.Sprint(b.Secs) {
		return fmt.Sprintf("two readers read in turns returned %v and %v, the archives hold %v and %v", ga, gb, a.Secs, b.Secs)
	}
	rc, _ := carv1root.NewCarReader(bytes.NewReader(b.build()))
	if x, err := ra.Next(); err != io.EOF {
		return fmt.Sprintf("a reader at its end returned (%v, %v) after another reader was opened", x, err)
	}
	if x, err := rc.Next(); err != nil || !x.Cid().Equals(alphaByID["b13"].Cid) {
		return "a fresh reader does not start at its first block"
	}
	return ""
}

// bigLoadCases: the loaders and sequential readers return all 70 000 blocks of the large archive, in order
// (the batching loaders hand blocks to PutMany in batches of 1000).
func bigLoadCases() [][2]string {
	file, secs := bigArchive()
	var out [][2]string
	for _, kind := range []string{"root.LoadCar(batch)", "internal.LoadCar(batch)", "root.LoadCar", "internal.LoadCar", "root.CarReader", "v2.BlockReader"} {
		_, got, err := readAllWith(kind, file, file, false)
		if err != nil {
			out = append(out, [2]string{kind, "fails on a valid archive: " + err.Error()})
			continue
		}
		if len(got) != len(secs) {
			out = append(out, [2]string{kind, fmt.Sprintf("%d blocks of %d arrived", len(got), len(secs))})
			continue
		}
		for i, b := range got {
			if !b.Cid().Equals(secs[i].c) || len(b.RawData()) != 4 || binary.BigEndian.Uint32(b.RawData()) != uint32(i) {
				out = append(out, [2]string{kind, fmt.Sprintf("block %d is not section %d of the archive", i, i)})
				break
			}
		}
	}
	return out
}
