package main

import (
	"context"
	"time"
)

func ctxWithTimeout(d time.Duration) (context.Context, context.CancelFunc) {
	return context.WithTimeout(context.Background(), d)
}
