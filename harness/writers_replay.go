package main

// C01 write side: the same logical content written through every writer must give the
// reference payload bytes (and, for CARv2, the reference container).

import (
	"bytes"
	"fmt"
	"os"
	"path/filepath"

	blocks "github.com/ipfs/go-block-format"
	"github.com/ipfs/go-cid"
	format "github.com/ipfs/go-ipld-format"
	carv1root "github.com/ipld/go-car"
	carv2 "github.com/ipld/go-car/v2"
	"github.com/ipld/go-car/v2/blockstore"
	"github.com/ipld/go-car/v2/storage"
	"github.com/ipld/go-car/v2/storage/deferred"
	"github.com/multiformats/go-multicodec"
)

type leafNode struct{ blocks.Block }

func (l leafNode) Resolve([]string) (interface{}, []string, error) {
	return nil, nil, fmt.Errorf("leaf")
}
func (l leafNode) Tree(string, int) []string { return nil }
func (l leafNode) ResolveLink([]string) (*format.Link, []string, error) {
	return nil, nil, fmt.Errorf("leaf")
}
func (l leafNode) Copy() format.Node               { return l }
func (l leafNode) Links() []*format.Link           { return nil }
func (l leafNode) Stat() (*format.NodeStat, error) { return &format.NodeStat{}, nil }
func (l leafNode) Size() (uint64, error)           { return uint64(len(l.RawData())), nil }

type leafGetter map[string]blocks.Block

func (g leafGetter) Get(_ ctxT, c cid.Cid) (format.Node, error) {
	b, ok := g[c.KeyString()]
	if !ok {
		return nil, format.ErrNotFound{Cid: c}
	}
	return leafNode{b}, nil
}
func (g leafGetter) GetMany(ctx ctxT, cs []cid.Cid) <-chan *format.NodeOption {
	ch := make(chan *format.NodeOption, len(cs))
	for _, c := range cs {
		n, err := g.Get(ctx, c)
		ch <- &format.NodeOption{Node: n, Err: err}
	}
	close(ch)
	return ch
}

func writerOpts(a *Arch) []carv2.Option {
	o := []carv2.Option{carv2.AllowDuplicatePuts(true), carv2.StoreIdentityCIDs(true), carv2.WriteAsCarV1(a.Ver == 1)}
	if a.Ver == 2 {
		if a.Dpad > 0 {
			o = append(o, carv2.UseDataPadding(uint64(a.Dpad)))
		}
		if a.Ipad > 0 {
			o = append(o, carv2.UseIndexPadding(uint64(a.Ipad)))
		}
		if a.Idx == "sorted" {
			o = append(o, carv2.UseIndexCodec(multicodec.CarIndexSorted))
		}
	}
	return o
}

func runWriteCase(x *acCtx, c *acCase) {
	if c.A.Npad > 0 || c.A.Hx > 0 || (c.A.Ver == 2 && c.A.Idx == "none") { // no writer produces null padding, a non-canonical header or an index-less CARv2
		return
	}
	a := c.A
	a.Full = true // StoreIdentityCIDs(true) => fully indexed
	want := a.build()
	wantPayload := a.payload()
	roots := a.rootCids()
	path := filepath.Join(x.dir, "w.car")
	cmp := func(writer string, got []byte, err error) {
		x.rep.eval(canon(c.A)+writer, len(c.Scan) > 1)
		if err != nil {
			x.viol("roundtrip/write-error/"+writer, c, writer+": "+err.Error(), map[string]any{"mode": "write"})
			return
		}
		if !bytes.Equal(got, want) {
			// locate: payload or container?
			detail := fmt.Sprintf("%d bytes, reference has %d", len(got), len(want))
			var payload []byte
			if a.Ver == 1 {
				payload = got
			} else if h, e := refParseV2(got); e == nil {
				payload = h.Payload
			}
			if !bytes.Equal(payload, wantPayload) {
				detail += "; the CARv1 payload differs from the other writers' payload"
			} else {
				detail += "; payload equal, container bytes differ"
			}
			x.viol("roundtrip/write-bytes/"+writer, c, writer+": "+detail, map[string]any{"mode": "write"})
		}
	}
	// blockstore.ReadWrite: Put one by one, and one PutMany
	for _, many := range []bool{false, true} {
		os.Remove(path)
		bs, err := blockstore.OpenReadWrite(path, roots, writerOpts(&a)...)
		if err == nil {
			if many {
				var l []blocks.Block
				for _, b := range a.blocks() {
					l = append(l, mkBlock(b))
				}
				err = bs.PutMany(bg, l)
			} else {
				for _, b := range a.blocks() {
					if err == nil {
						err = bs.Put(bg, mkBlock(b))
					}
				}
			}
			if err == nil {
				err = bs.Finalize()
			} else {
				bs.Discard()
			}
		}
		got, _ := os.ReadFile(path)
		cmp(fmt.Sprintf("blockstore.ReadWrite(putmany=%v)", many), got, err)
	}
	// storage writers
	put := func(w interface {
		Put(ctxT, string, []byte) error
	}) error {
		for _, b := range a.blocks() {
			if err := w.Put(bg, b.Cid.KeyString(), b.Data); err != nil {
				return err
			}
		}
		return nil
	}
	{
		os.Remove(path)
		f, _ := os.OpenFile(path, os.O_RDWR|os.O_CREATE, 0o644)
		w, err := storage.NewWritable(f, roots, writerOpts(&a)...)
		if err == nil {
			if err = put(w); err == nil {
				err = w.Finalize()
			}
		}
		f.Close()
		got, _ := os.ReadFile(path)
		cmp("storage.NewWritable(file)", got, err)
	}
	{
		os.Remove(path)
		f, _ := os.OpenFile(path, os.O_RDWR|os.O_CREATE, 0o644)
		w, err := storage.NewReadableWritable(f, roots, writerOpts(&a)...)
		if err == nil {
			if err = put(w); err == nil {
				err = w.Finalize()
			}
		}
		f.Close()
		got, _ := os.ReadFile(path)
		cmp("storage.NewReadableWritable", got, err)
	}
	if a.Ver == 1 {
		var buf bytes.Buffer
		w, err := storage.NewWritable(&plainWriter{&buf}, roots, writerOpts(&a)...)
		if err == nil {
			if err = put(w); err == nil {
				err = w.Finalize()
			}
		}
		cmp("storage.NewWritable(stream)", buf.Bytes(), err)
		var buf2 bytes.Buffer
		d := deferred.NewDeferredCarWriterForStream(&plainWriter{&buf2}, roots, writerOpts(&a)[:2]...)
		err = put(d)
		if err == nil {
			err = d.Close()
		}
		if len(a.Secs) == 0 {
			// nothing was put: the deferred writer must not have written anything at all
			if buf2.Len() != 0 {
				x.viol("roundtrip/write-bytes/deferred(stream)", c, "deferred writer wrote bytes without a Put", map[string]any{"mode": "write"})
			}
		} else {
			cmp("deferred.ForStream", buf2.Bytes(), err)
		}
	}
	if len(a.Secs) > 0 {
		os.Remove(path)
		d := deferred.NewDeferredCarWriterForPath(path, roots, writerOpts(&a)...)
		err := put(d)
		if err == nil {
			err = d.Close()
		}
		got, _ := os.ReadFile(path)
		cmp("deferred.ForPath", got, err)
	}
	// root-module WriteCar over leaf blocks: content = roots, de-duplicated by CID
	if a.Ver == 1 && len(a.Roots) > 0 {
		var dedup []string
		seen := map[string]bool{}
		for _, r := range a.Roots {
			k := alphaByID[r].Cid.KeyString()
			if !seen[k] {
				seen[k] = true
				dedup = append(dedup, r)
			}
		}
		if sameIDs(dedup, a.Secs) {
			g := leafGetter{}
			for _, b := range a.blocks() {
				g[b.Cid.KeyString()] = mkBlock(b)
			}
			var buf bytes.Buffer
			err := carv1root.WriteCar(bg, g, roots, &buf)
			cmp("root.WriteCar", buf.Bytes(), err)
		}
	}
	os.Remove(path)
}

type plainWriter struct{ w *bytes.Buffer }

func (p *plainWriter) Write(b []byte) (int, error) { return p.w.Write(b) }
