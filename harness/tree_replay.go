package main

// C18: TLC-enumerated tree shapes are materialised as real directory trees, packed with the
// built `car create`, the root printed by `car root` is compared with the header root, and the
// archive is extracted again (from the file or from stdin); the trees must be equal.

import (
	"sync/atomic"

	"bytes"
	"encoding/json"
	"fmt"
	"github.com/ipfs/go-cid"
	"hash/fnv"
	"os"
	"os/exec"
	"path/filepath"
	"runtime"
	"sort"
	"strings"
	"sync"
)

type trEntry struct {
	K    string    `json:"k"`
	N    string    `json:"n"`
	Size string    `json:"size"`
	To   string    `json:"to"`
	Ch   []trEntry `json:"ch"`
}

type treeCase struct {
	Tree []trEntry `json:"tree"`
	Cfg  struct {
		Version int    `json:"version"`
		Nowrap  bool   `json:"nowrap"`
		Spell   string `json:"spell"`
		Stdin   bool   `json:"stdin"`
		Dest    string `json:"dest"`
	} `json:"cfg"`
	Expected []struct {
		Path []string `json:"path"`
		K    string   `json:"k"`
		V    string   `json:"v"`
	} `json:"expected"`
}

func treeContent(class, name string) []byte {
	switch class {
	case "empty":
		return []byte{}
	case "small":
		return []byte("identical small content\n") // f1 and f2 share it: one block, two entries
	case "small2":
		return []byte("ünïcödé 名前 " + name)
	case "onechunk":
		return detBytes("chunk-"+name, 262144)
	case "multichunk":
		return detBytes("multi-"+name, 600*1024+17)
	case "dirbytes": // exactly the dag-pb block of an empty UnixFS directory: same multihash as that node, other codec
		return dagpbNode(nil, ufsData(ufsDirectory, nil, -1))
	case "zerotail": // a multiple of 32 KiB whose last 192 KiB are zeros (a sparse-copy would have to make the hole real)
		return append(detBytes("zt-"+name, 64*1024), make([]byte, 192*1024)...)
	case "repeatchunk":
		return make([]byte, 600*1024) // identical chunks
	}
	return []byte(class)
}

func treeTarget(class string) string {
	switch class {
	case "rel":
		return "f1"
	case "abs":
		return "/etc/hostname"
	case "dangling":
		return "no/such/thing"
	case "unclean":
		return "./d/../f1"
	}
	return class
}

func realName(n string) string {
	if n == "uni" {
		return "ünï 名前.txt"
	}
	if n == "long" { // close to the 255-byte limit of a file name, counted in bytes
		return strings.Repeat("名", 83) + ".x"
	}
	return n
}

var shardedRuns atomic.Int64

// unixfsType returns the UnixFS Data.Type of a dag-pb node, -1 if it has none.
func unixfsType(node []byte) int {
	for len(node) > 0 {
		tag, n := getUvarint(node)
		if n <= 0 {
			return -1
		}
		node = node[n:]
		if tag&7 != 2 {
			return -1
		}
		l, n := getUvarint(node)
		if n <= 0 || uint64(len(node)-n) < l {
			return -1
		}
		body := node[n : n+int(l)]
		node = node[n+int(l):]
		if tag>>3 == 1 { // PBNode.Data
			if len(body) >= 2 && body[0] == 0x08 {
				t, _ := getUvarint(body[1:])
				return int(t)
			}
			return -1
		}
	}
	return -1
}

const manyDirEntries = 1300 // 1300 x (195-byte name + 36-byte CID) = 300 KB > 262144

func materialise(dir string, es []trEntry) error {
	for _, e := range es {
		p := filepath.Join(dir, realName(e.N))
		switch e.K {
		case "file":
			if err := os.WriteFile(p, treeContent(e.Size, e.N), 0o644); err != nil {
				return err
			}
		case "link":
			if err := os.Symlink(treeTarget(e.To), p); err != nil {
				return err
			}
		case "dir":
			if err := os.Mkdir(p, 0o755); err != nil {
				return err
			}
			if err := materialise(p, e.Ch); err != nil {
				return err
			}
		case "manydir":
			// names + CIDs of the entries exceed go-unixfsnode's 256 KiB threshold: `car create` builds a HAMT
			if err := os.Mkdir(p, 0o755); err != nil {
				return err
			}
			n, nameLen := manyDirEntries, 190
			if e.N == "wide" { // 5000 x (15 + 36) = 255 000 < 262 144: stays a plain directory, its block is ~300 KB
				n, nameLen = 5000, 10
			}
			for i := 0; i < n; i++ {
				q := filepath.Join(p, fmt.Sprintf("%04d-%s", i, strings.Repeat("n", nameLen)))
				var err error
				switch {
				case i%97 == 5:
					err = os.Symlink(fmt.Sprintf("../target-%d", i), q)
				case i%3 == 0:
					err = os.WriteFile(q, []byte(fmt.Sprintf("entry %d\n", i)), 0o644)
				default:
					err = os.WriteFile(q, nil, 0o644)
				}
				if err != nil {
					return err
				}
			}
		}
	}
	return nil
}

// treeListing: path -> kind/content digest/target
func treeListing(root string) map[string]string {
	out := map[string]string{}
	filepath.Walk(root, func(p string, info os.FileInfo, err error) error {
		if err != nil || p == root {
			return nil
		}
		rel, _ := filepath.Rel(root, p)
		switch {
		case info.Mode()&os.ModeSymlink != 0:
			t, _ := os.Readlink(p)
			out[rel] = "link:" + t
		case info.IsDir():
			out[rel] = "dir"
		default:
			b, _ := os.ReadFile(p)
			h := fnv.New64a()
			h.Write(b)
			out[rel] = fmt.Sprintf("file:%d:%x", len(b), h.Sum64())
		}
		return nil
	})
	return out
}

func runTreeCase(carBin string, c *treeCase, base string) (string, string) {
	sand, _ := os.MkdirTemp(base, "vh-tree-")
	defer os.RemoveAll(sand)
	wrapName := "src"
	if c.Cfg.Spell == "hidden" {
		wrapName = ".src"
	}
	src := filepath.Join(sand, wrapName)
	os.Mkdir(src, 0o755)
	if err := materialise(src, c.Tree); err != nil {
		return "harness", err.Error()
	}
	carPath := filepath.Join(sand, "t.car")
	args := []string{"create", "-f", carPath, "--version", fmt.Sprint(c.Cfg.Version)}
	if c.Cfg.Nowrap {
		args = append(args, "--no-wrap")
	}
	ccmd := exec.Command(carBin, append(args, src)...)
	switch c.Cfg.Spell {
	case "slash": // the source directory named with a trailing separator
		ccmd = exec.Command(carBin, append(args, src+string(os.PathSeparator))...)
	case "dot": // run inside the tree, source spelled "."
		ccmd = exec.Command(carBin, append(args, ".")...)
		ccmd.Dir = src
	case "dirdot":
		ccmd = exec.Command(carBin, append(args, "src/.")...)
		ccmd.Dir = sand
	}
	if out, err := ccmd.CombinedOutput(); err != nil {
		return "create-failed", fmt.Sprintf("car %v: %v %s", args[:len(args)-1], err, strings.TrimSpace(string(out)))
	}
	// the printed root is the single header root
	rootOut, err := exec.Command(carBin, "root", carPath).CombinedOutput()
	if err != nil {
		return "root-failed", fmt.Sprintf("car root: %v %s", err, rootOut)
	}
	fileBytes, _ := os.ReadFile(carPath)
	payload := fileBytes
	if c.Cfg.Version == 2 {
		h, err := refParseV2(fileBytes)
		if err != nil {
			return "created-archive-malformed", err.Error()
		}
		payload = h.Payload
	}
	v1, err := refParseV1(payload, false)
	if err != nil {
		return "created-archive-malformed", err.Error()
	}
	hasMany := false
	for _, e := range c.Tree {
		hasMany = hasMany || e.K == "manydir"
	}
	hasWide := false
	for _, e := range c.Tree {
		if e.K == "manydir" && e.N == "wide" {
			hasWide = true
		}
	}
	if hasMany && !hasWide {
		sharded := false
		for _, sec := range v1.Secs {
			if sec.Cid.Prefix().Codec == cid.DagProtobuf && unixfsType(sec.Data) == 5 {
				sharded = true
			}
		}
		if !sharded {
			return "harness", "the many-entry directory was not packed as a HAMT-sharded directory: the case does not exercise what it is meant to"
		}
		shardedRuns.Add(1)
	}
	printed := strings.Fields(string(rootOut))
	if len(v1.Roots) != 1 || len(printed) != 1 || v1.Roots[0].String() != printed[0] {
		return "root-mismatch", fmt.Sprintf("header roots %v, car root printed %v", v1.Roots, printed)
	}
	rootInBlocks := false
	for _, s := range v1.Secs {
		if s.Cid.Equals(v1.Roots[0]) {
			rootInBlocks = true
		}
	}
	if !rootInBlocks {
		return "root-mismatch", "the header root is not among the blocks of the archive"
	}
	dst := filepath.Join(sand, "dst")
	os.Mkdir(dst, 0o755)
	dstArg := dst
	switch c.Cfg.Dest {
	case "link": // the output directory is named through a symbolic link
		dstArg = filepath.Join(sand, "dst-link")
		os.Symlink(dst, dstArg)
	case "stale": // an earlier extraction left a longer version of every regular file
		under := dst
		if !c.Cfg.Nowrap {
			under = filepath.Join(dst, wrapName)
		}
		filepath.Walk(src, func(p string, info os.FileInfo, err error) error {
			if err != nil || !info.Mode().IsRegular() {
				return nil
			}
			rel, _ := filepath.Rel(src, p)
			b, _ := os.ReadFile(p)
			os.MkdirAll(filepath.Dir(filepath.Join(under, rel)), 0o755)
			os.WriteFile(filepath.Join(under, rel), append(append([]byte{}, b...), bytes.Repeat([]byte("STALE"), 160)...), 0o644)
			return nil
		})
	}
	var xcmd *exec.Cmd
	if c.Cfg.Stdin {
		xcmd = exec.Command(carBin, "extract", dstArg)
		xcmd.Stdin = bytes.NewReader(fileBytes) // a pipe: not seekable
	} else {
		xcmd = exec.Command(carBin, "extract", "-f", carPath, dstArg)
	}
	xout, xerr := xcmd.CombinedOutput()
	// "no files extracted" (exit 1) is how the tool reports a tree without any file or link; the
	// directories must have been created all the same, which the comparison below checks
	if xerr != nil && !strings.Contains(string(xout), "no files extracted") {
		return "extract-failed", fmt.Sprintf("car extract: %v %s", xerr, strings.TrimSpace(string(xout)))
	}
	got := treeListing(dst)
	want := map[string]string{}
	srcList := treeListing(src)
	for _, e := range c.Expected {
		var parts []string
		for _, s := range e.Path {
			parts = append(parts, realName(s))
		}
		rel := filepath.Join(parts...)
		// what the source tree has at the corresponding place
		srel := rel
		if !c.Cfg.Nowrap && (c.Cfg.Spell == "abs" || c.Cfg.Spell == "" || c.Cfg.Spell == "hidden" || c.Cfg.Spell == "slash") {
			srel = strings.TrimPrefix(strings.TrimPrefix(rel, wrapName), string(os.PathSeparator))
		}
		if srel == "" {
			want[rel] = "dir"
		} else {
			want[rel] = srcList[srel]
		}
		if e.K == "manydir" { // opaque in the specification: every entry of the source directory
			for sp, v := range srcList {
				if strings.HasPrefix(sp, srel+string(os.PathSeparator)) {
					want[filepath.Join(rel, strings.TrimPrefix(sp, srel+string(os.PathSeparator)))] = v
				}
			}
		}
	}
	var diff []string
	for k, v := range want {
		if got[k] != v {
			// an empty directory cannot be told from a missing one only if extraction creates none; it must
			diff = append(diff, fmt.Sprintf("%s: want %q got %q", k, v, got[k]))
		}
	}
	for k, v := range got {
		if _, ok := want[k]; !ok {
			diff = append(diff, fmt.Sprintf("%s: unexpected %q", k, v))
		}
	}
	if len(diff) > 0 {
		sort.Strings(diff)
		return "tree-differs", strings.Join(diff, "; ") + " | extract output: " + strings.TrimSpace(string(xout))
	}
	return "", ""
}

func runTreeReplay(args []string) int {
	in, out, carBin := args[0], args[1], args[2]
	seed, permille := uint64(1), 1000
	for _, a := range args[3:] {
		if strings.HasPrefix(a, "seed=") {
			fmt.Sscan(a[5:], &seed)
		}
		if strings.HasPrefix(a, "permille=") {
			fmt.Sscan(a[9:], &permille)
		}
	}
	rep := newReport("tree")
	jobs := make(chan []byte, 256)
	var wg sync.WaitGroup
	base := "/dev/shm"
	if _, err := os.Stat(base); err != nil {
		base = os.TempDir()
	}
	for w := 0; w < runtime.NumCPU(); w++ {
		wg.Add(1)
		go func() {
			defer wg.Done()
			for raw := range jobs {
				var c treeCase
				if err := json.Unmarshal(raw, &c); err != nil {
					rep.inconclusive("bad record: " + err.Error())
					continue
				}
				cls, msg := runTreeCase(carBin, &c, base)
				rep.eval(canon(c.Tree)+canon(c.Cfg), len(c.Tree) > 0)
				if cls == "harness" {
					rep.inconclusive(msg)
				} else if cls != "" {
					src := "file"
					if c.Cfg.Stdin {
						src = "stdin"
					}
					rep.violate(fmt.Sprintf("create-extract/%s/v%d/%s", cls, c.Cfg.Version, src), fmt.Sprintf("tree %s cfg %s: %s", canon(c.Tree), canon(c.Cfg), msg),
						map[string]any{"family": "tree", "case": c})
				}
				if len(c.Tree) == 2 {
					rep.sample(map[string]any{"tree": c.Tree, "cfg": c.Cfg}, 6)
				}
			}
		}()
	}
	err := readTLCRecords(in, func(raw []byte) error {
		// always taken: a file with the bytes of an empty-directory node next to an empty directory
		collide := bytes.Contains(raw, []byte(`"dirbytes"`)) && bytes.Contains(raw, []byte(`"ch":[]`))
		if permille < 1000 && !collide {
			h := fnv.New64a()
			h.Write(raw)
			if (h.Sum64()+seed*7919)%1000 >= uint64(permille) {
				return nil
			}
		}
		jobs <- append([]byte{}, raw...)
		return nil
	})
	close(jobs)
	wg.Wait()
	if err != nil {
		rep.inconclusive(err.Error())
	}
	rep.count("hamt_sharded_archives", int(shardedRuns.Load()))
	rep.write(out)
	if len(rep.ViolClasses) > 0 {
		return 1
	}
	if len(rep.Inconcl) > 0 {
		return 2
	}
	return 0
}
