package main

// Replay of Transform.tla behaviours (C10) on real files with WrapV1/WrapV1File,
// ExtractV1File and ReplaceRootsInFile; all bytes compared after every step.

import (
	"bytes"
	"encoding/json"
	"fmt"
	"os"
	"path/filepath"
	"runtime"
	"sync"

	carv2 "github.com/ipld/go-car/v2"
	"github.com/multiformats/go-multicodec"
)

type trOp struct {
	Op    string   `json:"op"`
	Codec string   `json:"codec"`
	Ident bool     `json:"ident"`
	Dst   string   `json:"dst"`
	Roots []string `json:"roots"`
}

type trStep struct {
	Op    trOp   `json:"op"`
	Res   string `json:"res"`
	After Arch   `json:"after"`
}

type trCase struct {
	F0   Arch     `json:"f0"`
	Hist []trStep `json:"hist"`
}

func runTransformCase(c *trCase, dir string, variant int) (string, string) {
	cur := filepath.Join(dir, "cur.car")
	os.WriteFile(cur, c.F0.build(), 0o644)
	defer os.Remove(cur)
	// null padding after the last section is only readable with ZeroLengthSectionAsEOF; without
	// padding the option must make no difference (half of the cases carry it)
	var zopts []carv2.Option
	if c.F0.Npad > 0 || variant == 1 {
		zopts = append(zopts, carv2.ZeroLengthSectionAsEOF(true))
	}
	for i, st := range c.Hist {
		before, _ := os.ReadFile(cur)
		var err error
		switch st.Op.Op {
		case "wrap":
			dst := filepath.Join(dir, "wrapped.car")
			os.Remove(dst)
			if st.Op.Codec == "mh" && variant == 0 && len(zopts) == 0 && !st.Op.Ident {
				err = carv2.WrapV1File(cur, dst)
			} else {
				var out bytes.Buffer
				opt := carv2.UseIndexCodec(multicodec.CarMultihashIndexSorted)
				if st.Op.Codec == "sorted" {
					opt = carv2.UseIndexCodec(multicodec.CarIndexSorted)
				}
				wopts := append([]carv2.Option{opt}, zopts...)
				if st.Op.Ident {
					wopts = append(wopts, carv2.StoreIdentityCIDs(true))
				}
				if variant == 1 {
					// "does not use any padding before the inner CARv1 or index": padding options given to WrapV1 change nothing
					wopts = append(wopts, carv2.UseDataPadding(7), carv2.UseIndexPadding(9))
				}
				err = carv2.WrapV1(bytes.NewReader(before), &out, wopts...)
				if err == nil {
					err = os.WriteFile(dst, out.Bytes(), 0o644)
				}
			}
			if err == nil {
				// the source must be untouched
				if now, _ := os.ReadFile(cur); !bytes.Equal(now, before) {
					return "wrap-source-touched", fmt.Sprintf("step %d: wrapping modified its source", i)
				}
				os.Rename(dst, cur)
			}
		case "extract":
			switch st.Op.Dst {
			case "same":
				err = carv2.ExtractV1File(cur, cur)
			case "alias": // the same file under another spelling of its path
				err = carv2.ExtractV1File(cur, filepath.Dir(cur)+string(os.PathSeparator)+"."+string(os.PathSeparator)+filepath.Base(cur))
			case "symlink": // ... and through a symbolic link
				ln := filepath.Join(dir, "cur-link.car")
				os.Remove(ln)
				os.Symlink(cur, ln)
				err = carv2.ExtractV1File(cur, ln)
				os.Remove(ln)
			default:
				dst := filepath.Join(dir, "extracted.car")
				os.Remove(dst)
				if st.Op.Dst == "larger" {
					junk := bytes.Repeat([]byte{0x5a}, 2*len(before)+100)
					os.WriteFile(dst, junk, 0o644)
				}
				err = carv2.ExtractV1File(cur, dst)
				if err == nil {
					if now, _ := os.ReadFile(cur); !bytes.Equal(now, before) {
						return "extract-source-touched", fmt.Sprintf("step %d: extraction to another path modified its source", i)
					}
					os.Rename(dst, cur)
				} else if st.Op.Dst == "absent" {
					os.Remove(dst)
				}
			}
		case "replace":
			err = carv2.ReplaceRootsInFile(cur, idsToCids(st.Op.Roots))
		}
		got, _ := os.ReadFile(cur)
		if st.Res == "err" {
			if err == nil {
				return st.Op.Op + "-not-refused", fmt.Sprintf("step %d %+v: must be refused, returned nil", i, st.Op)
			}
			if !bytes.Equal(got, before) {
				return st.Op.Op + "-refused-but-touched", fmt.Sprintf("step %d %+v: refused (%v) but the file changed (%d -> %d bytes)", i, st.Op, err, len(before), len(got))
			}
			continue
		}
		if err != nil {
			return st.Op.Op + "-error", fmt.Sprintf("step %d %+v failed: %v", i, st.Op, err)
		}
		want := st.After.build()
		if !bytes.Equal(got, want) {
			j := 0
			for j < len(got) && j < len(want) && got[j] == want[j] {
				j++
			}
			return st.Op.Op + "-bytes", fmt.Sprintf("step %d %+v: result has %d bytes, specification image has %d; first difference at offset %d", i, st.Op, len(got), len(want), j)
		}
	}
	return "", ""
}

func runTransformReplay(args []string) int {
	in, out := args[0], args[1]
	rep := newReport("transform")
	if m := bigWrapCase(); m != "" {
		rep.violate("transform/wrap-large", fmt.Sprintf("CARv1 of %d sections: %s", bigSections, m), map[string]any{"family": "big-archive", "sections": bigSections})
	}
	rep.eval("big-archive-wrap", true)
	jobs := make(chan []byte, 256)
	var wg sync.WaitGroup
	base := "/dev/shm"
	if _, err := os.Stat(base); err != nil {
		base = os.TempDir()
	}
	for w := 0; w < runtime.NumCPU(); w++ {
		wg.Add(1)
		go func(w int) {
			defer wg.Done()
			dir, _ := os.MkdirTemp(base, "vh-tr-")
			defer os.RemoveAll(dir)
			n := 0
			for raw := range jobs {
				var c trCase
				if err := json.Unmarshal(raw, &c); err != nil {
					rep.inconclusive("bad record: " + err.Error())
					continue
				}
				n++
				var cls, msg string
				func() {
					defer func() {
						if r := recover(); r != nil {
							cls, msg = "panic", fmt.Sprint(r)
						}
					}()
					cls, msg = runTransformCase(&c, dir, n%2)
				}()
				rep.eval(canon(c), true)
				if cls != "" {
					rep.violate("transform/"+cls, fmt.Sprintf("file %s: %s", canon(c.F0), msg), map[string]any{"family": "transform", "case": c})
				}
				if n%5000 == 1 {
					var ops []any
					for _, s := range c.Hist {
						ops = append(ops, s.Op)
					}
					rep.sample(map[string]any{"file": c.F0, "ops": ops}, 8)
				}
			}
		}(w)
	}
	err := readTLCRecords(in, func(raw []byte) error { jobs <- append([]byte{}, raw...); return nil })
	close(jobs)
	wg.Wait()
	if err != nil {
		rep.inconclusive(err.Error())
	}
	rep.write(out)
	if len(rep.ViolClasses) > 0 {
		return 1
	}
	if len(rep.Inconcl) > 0 {
		return 2
	}
	return 0
}
