package main

// Replay of Reader.tla behaviours (C14) on the real carv2.BlockReader over three kinds of source.

import (
	"bytes"
	"encoding/json"
	"fmt"
	"io"
	"os"
	"path/filepath"
	"runtime"
	"strings"
	"sync"
	"testing/iotest"

	carv2 "github.com/ipld/go-car/v2"
)

type rdStep struct {
	Call   string `json:"call"`
	Res    string `json:"res"`
	B      string `json:"b"`
	Offset uint64 `json:"offset"`
	Source uint64 `json:"source"`
	Size   uint64 `json:"size"`
}

type rdCase struct {
	A    Arch     `json:"a"`
	Hist []rdStep `json:"hist"`
	End  struct {
		Consumed int64 `json:"consumed"`
		Limit    int64 `json:"limit"`
	} `json:"end"`
}

type countingReader struct {
	r io.Reader
	n int64
}

func (c *countingReader) Read(p []byte) (int, error) {
	n, err := c.r.Read(p)
	c.n += int64(n)
	return n, err
}

func choiceString(h []rdStep) string {
	var sb strings.Builder
	for _, s := range h {
		if s.Call == "next" {
			sb.WriteByte('N')
		} else {
			sb.WriteByte('S')
		}
	}
	return sb.String()
}

// byteCountingReader is an io.Reader that is also an io.ByteReader (as bytes.Reader and bufio.Reader are)
// and counts what is taken from it.
type byteCountingReader struct{ c *countingReader }

func (b *byteCountingReader) Read(p []byte) (int, error) { return b.c.Read(p) }
func (b *byteCountingReader) ReadByte() (byte, error) {
	var one [1]byte
	n, err := b.c.Read(one[:])
	if n == 1 {
		return one[0], nil
	}
	if err == nil {
		err = io.ErrNoProgress
	}
	return 0, err
}

// chunkReader hands out at most n bytes per Read, like a pipe or a socket does.
type chunkReader struct {
	r io.Reader
	n int
}

func (c *chunkReader) Read(p []byte) (int, error) {
	if len(p) > c.n {
		p = p[:c.n]
	}
	return c.r.Read(p)
}

func runReaderCase(c *rdCase, file []byte, src string, dir string) (string, string) {
	var r io.Reader
	var cnt *countingReader
	var opts []carv2.Option
	if strings.HasSuffix(src, "+trusted") { // hash verification off: positions and CIDs must be the same
		opts = append(opts, carv2.WithTrustedCAR(true))
		src = strings.TrimSuffix(src, "+trusted")
	}
	switch src {
	case "bytes.Reader":
		r = bytes.NewReader(file)
	case "io.Reader":
		cnt = &countingReader{r: bytes.NewReader(file)}
		r = cnt
	case "io.ByteReader": // consumption counted on a source that offers ReadByte
		cnt = &countingReader{r: bytes.NewReader(file)}
		r = &byteCountingReader{cnt}
	case "io.Reader/1", "io.Reader/7": // short reads
		cnt = &countingReader{r: bytes.NewReader(file)}
		r = &chunkReader{cnt, int(src[len(src)-1] - '0')}
	case "DataErrReader": // a source that hands out its last bytes together with io.EOF (decompressors, HTTP bodies)
		r = iotest.DataErrReader(&plainReader{bytes.NewReader(file)})
	case "Reader.DataReader": // the payload reader of a v2.Reader over a CARv1 is the whole file
		rd, err := carv2.NewReader(bytes.NewReader(file))
		if err != nil {
			return "open", "NewReader failed on a valid archive: " + err.Error()
		}
		dr, err := rd.DataReader()
		if err != nil {
			return "open", "DataReader failed on a valid archive: " + err.Error()
		}
		r = dr
	case "os.File":
		p := filepath.Join(dir, "r.car")
		if err := os.WriteFile(p, file, 0o644); err != nil {
			return "harness", err.Error()
		}
		f, err := os.Open(p)
		if err != nil {
			return "harness", err.Error()
		}
		defer f.Close()
		defer os.Remove(p)
		r = f
	}
	br, err := carv2.NewBlockReader(r, opts...)
	if err != nil {
		return "open", fmt.Sprintf("NewBlockReader failed on a valid archive: %v", err)
	}
	if int(br.Version) != c.A.Ver {
		return "version", fmt.Sprintf("Version=%d want %d", br.Version, c.A.Ver)
	}
	wantRoots := c.A.rootCids()
	if len(br.Roots) != len(wantRoots) {
		return "roots", fmt.Sprintf("%d roots, want %d", len(br.Roots), len(wantRoots))
	}
	for i := range wantRoots {
		if !br.Roots[i].Equals(wantRoots[i]) {
			return "roots", fmt.Sprintf("root %d = %s want %s", i, br.Roots[i], wantRoots[i])
		}
	}
	type kept struct {
		md   *carv2.BlockMetadata
		step int
	}
	var keptMd []kept // every *BlockMetadata handed out stays exact after later calls
	for i, st := range c.Hist {
		if st.Call == "next" {
			blk, err := br.Next()
			if st.Res == "eof" {
				if err != io.EOF {
					return "next-eof", fmt.Sprintf("step %d: Next at the end returned (%v, %v), want io.EOF", i, blk, err)
				}
				continue
			}
			if err != nil {
				return "next-error", fmt.Sprintf("step %d: Next failed on a valid archive: %v", i, err)
			}
			b := alphaByID[st.B]
			if !blk.Cid().Equals(b.Cid) || !bytes.Equal(blk.RawData(), b.Data) {
				return "next-block", fmt.Sprintf("step %d: Next returned %s/%d bytes, want %s (%s)/%d bytes", i, blk.Cid(), len(blk.RawData()), b.Cid, b.ID, len(b.Data))
			}
		} else {
			md, err := br.SkipNext()
			if st.Res == "eof" {
				if err != io.EOF {
					return "skip-eof", fmt.Sprintf("step %d: SkipNext at the end returned (%v, %v), want io.EOF", i, md, err)
				}
				continue
			}
			if err != nil {
				return "skip-error", fmt.Sprintf("step %d: SkipNext failed on a valid archive: %v", i, err)
			}
			keptMd = append(keptMd, kept{md, i})
			b := alphaByID[st.B]
			if !md.Cid.Equals(b.Cid) {
				return "skip-cid", fmt.Sprintf("step %d: SkipNext CID %s, want %s (%s)", i, md.Cid, b.Cid, b.ID)
			}
			if md.Offset != st.Offset || md.SourceOffset != st.Source || md.Size != st.Size {
				return "skip-meta", fmt.Sprintf("step %d: metadata {Offset %d SourceOffset %d Size %d}, specification says {%d %d %d}",
					i, md.Offset, md.SourceOffset, md.Size, st.Offset, st.Source, st.Size)
			}
			// the length prefix really starts at SourceOffset in the source
			if int(md.SourceOffset) >= len(file) {
				return "skip-meta", fmt.Sprintf("step %d: SourceOffset %d beyond the file", i, md.SourceOffset)
			}
			sl, n := getUvarint(file[md.SourceOffset:])
			if n <= 0 || sl != uint64(len(b.Cid.Bytes())+len(b.Data)) || !bytes.HasPrefix(file[int(md.SourceOffset)+n:], b.Cid.Bytes()) {
				return "skip-bytes", fmt.Sprintf("step %d: bytes at SourceOffset %d are not the section of %s", i, md.SourceOffset, b.ID)
			}
		}
	}
	for _, k := range keptMd {
		st := c.Hist[k.step]
		if !k.md.Cid.Equals(alphaByID[st.B].Cid) || k.md.Offset != st.Offset || k.md.SourceOffset != st.Source || k.md.Size != st.Size {
			return "skip-meta-kept", fmt.Sprintf("the metadata returned at step %d reads {Offset %d SourceOffset %d Size %d} after later calls, it was {%d %d %d}",
				k.step, k.md.Offset, k.md.SourceOffset, k.md.Size, st.Offset, st.Source, st.Size)
		}
	}
	if cnt != nil && c.A.Ver == 2 && cnt.n > c.End.Limit {
		return "overread", fmt.Sprintf("source consumed up to byte %d, payload ends at %d", cnt.n, c.End.Limit)
	}
	return "", ""
}

func runReaderReplay(args []string) int {
	in, out := args[0], args[1]
	rep := newReport("reader")
	type job struct{ raw []byte }
	jobs := make(chan job, 256)
	var wg sync.WaitGroup
	base := "/dev/shm"
	if _, err := os.Stat(base); err != nil {
		base = os.TempDir()
	}
	for w := 0; w < runtime.NumCPU(); w++ {
		wg.Add(1)
		go func() {
			defer wg.Done()
			dir, _ := os.MkdirTemp(base, "vh-rd-")
			defer os.RemoveAll(dir)
			for j := range jobs {
				var c rdCase
				if err := json.Unmarshal(j.raw, &c); err != nil {
					rep.inconclusive("bad record: " + err.Error())
					continue
				}
				file := c.A.build()
				cs := choiceString(c.Hist)
				for _, src := range []string{"bytes.Reader", "io.Reader", "os.File", "io.Reader/1", "bytes.Reader+trusted", "io.Reader/7+trusted", "io.ByteReader", "DataErrReader", "Reader.DataReader"} {
					if src == "Reader.DataReader" && c.A.Ver != 1 {
						continue
					}
					var cls, msg string
					func() {
						defer func() {
							if r := recover(); r != nil {
								cls, msg = "panic", fmt.Sprint(r)
							}
						}()
						cls, msg = runReaderCase(&c, file, src, dir)
					}()
					mixed := strings.Contains(cs, "N") && strings.Contains(cs, "S")
					rep.eval(canon(c.A)+cs+src, mixed)
					if cls != "" {
						rep.violate("blockreader/"+cls+"/"+src, fmt.Sprintf("archive %s choices %s source %s: %s", canon(c.A), cs, src, msg),
							map[string]any{"family": "reader", "case": c, "source": src})
					}
				}
				rep.count("behaviours", 1)
				if len(c.Hist) >= 3 {
					rep.sample(map[string]any{"archive": c.A, "choices": cs}, 8)
				}
			}
		}()
	}
	err := readTLCRecords(in, func(raw []byte) error {
		jobs <- job{append([]byte{}, raw...)}
		return nil
	})
	close(jobs)
	wg.Wait()
	if err != nil {
		rep.inconclusive(err.Error())
	}
	rep.write(out)
	if len(rep.ViolClasses) > 0 {
		return 1
	}
	if len(rep.Inconcl) > 0 {
		return 2
	}
	return 0
}
