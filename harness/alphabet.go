package main

// The block alphabet shared by the TLA+ specifications (spec/Alphabet.tla, generated from
// this table) and the replayers. Every size that the specifications compute with (CID byte
// length, data length, digest identity) is taken from the real encodings built here.

import (
	"bytes"
	"crypto/sha256"
	"encoding/json"
	"fmt"
	"os"
	"sort"
	"strings"

	"github.com/ipfs/go-cid"
	mh "github.com/multiformats/go-multihash"
)

type ABlock struct {
	ID    string `json:"id"`
	Cid   cid.Cid
	Data  []byte
	DataI string // data identity ("x1", ...): equal bytes <=> equal id
	DigI  string // digest identity ("D1", ...): equal digest bytes <=> equal id
	Valid bool   // data hashes to the CID under the CID's own hash function
	Ver   int
	Codec uint64
	HCode uint64
	DLen  int // digest length
}

var (
	alphabet   []*ABlock
	alphaByID  = map[string]*ABlock{}
	alphaByCid = map[string]*ABlock{} // key: cid.KeyString(); first block with that CID
	dataByID   = map[string][]byte{}
)

func detBytes(tag string, n int) []byte {
	out := make([]byte, 0, n+32)
	ctr := 0
	for len(out) < n {
		h := sha256.Sum256([]byte(fmt.Sprintf("%s/%d", tag, ctr)))
		out = append(out, h[:]...)
		ctr++
	}
	return out[:n]
}

func mustSum(data []byte, code uint64, length int) mh.Multihash {
	h, err := mh.Sum(data, code, length)
	if err != nil {
		panic(err)
	}
	return h
}

func init() {
	x1 := []byte("hello")
	x2 := detBytes("x2", 91)    // 36 + 91 = 127: last one-byte length prefix
	x3 := detBytes("x3", 92)    // 36 + 92 = 128: first two-byte length prefix
	x4 := detBytes("x4", 7)     // blake2b block
	x5 := detBytes("x5", 16347) // 36 + 16347 = 16383
	x6 := detBytes("x6", 16348) // 36 + 16348 = 16384
	x7 := []byte("world!")
	d1 := mustSum(x1, mh.SHA2_256, -1)
	dec, _ := mh.Decode(d1)
	D1 := dec.Digest
	big := detBytes("big", 100)
	huge := detBytes("huge", 200)

	add := func(id string, c cid.Cid, data []byte, dataI string) {
		p := c.Prefix()
		dm, err := mh.Decode(c.Hash())
		if err != nil {
			panic(err)
		}
		valid := false
		if hc, err := p.Sum(data); err == nil && hc.Equals(c) {
			valid = true
		}
		b := &ABlock{ID: id, Cid: c, Data: data, DataI: dataI, Valid: valid, Ver: int(p.Version),
			Codec: p.Codec, HCode: dm.Code, DLen: len(dm.Digest)}
		alphabet = append(alphabet, b)
		alphaByID[id] = b
		if _, ok := alphaByCid[c.KeyString()]; !ok {
			alphaByCid[c.KeyString()] = b
		}
		if old, ok := dataByID[dataI]; ok && !bytes.Equal(old, data) {
			panic("data id clash " + dataI)
		}
		dataByID[dataI] = data
	}
	idmh := func(b []byte) mh.Multihash {
		h, err := mh.Encode(b, mh.IDENTITY)
		if err != nil {
			panic(err)
		}
		return h
	}
	crafted, _ := mh.Encode(D1, mh.BLAKE2B_MIN+31)

	add("b1", cid.NewCidV1(cid.Raw, d1), x1, "x1")                                   // baseline
	add("b2", cid.NewCidV1(cid.DagCBOR, d1), x1, "x1")                               // same multihash, other codec
	add("b3", cid.NewCidV0(d1), x1, "x1")                                            // CIDv0 on the same multihash
	add("b4", cid.NewCidV1(cid.Raw, mustSum(x7, mh.SHA2_256, -1)), x7, "x7")         // distinct block
	add("b5", cid.NewCidV1(cid.Raw, idmh(D1)), D1, "xD1")                            // identity, digest bytes = D1
	add("b6", cid.NewCidV1(cid.Raw, mustSum(x4, mh.BLAKE2B_MIN+31, -1)), x4, "x4")   // second hash function
	add("b7", cid.NewCidV1(cid.Raw, crafted), x1, "x1")                              // blake2b code with digest D1 (invalid block; stores only)
	add("b8", cid.NewCidV1(cid.Raw, mustSum(x1, mh.SHA2_512, -1)), x1, "x1")         // 64-byte digest
	add("b9", cid.NewCidV1(cid.Raw, mustSum(x7, mh.SHA2_256, 20)), x7, "x7")         // truncated digest (20 bytes)
	add("b10", cid.NewCidV1(cid.Raw, idmh(nil)), []byte{}, "x0")                     // identity, empty
	add("b11", cid.NewCidV1(cid.Raw, idmh(big)), big, "xbig")                        // identity, 100-byte digest
	add("b12", cid.NewCidV1(cid.Raw, mustSum(nil, mh.SHA2_256, -1)), []byte{}, "x0") // empty data, real hash
	add("b13", cid.NewCidV1(cid.Raw, mustSum(x2, mh.SHA2_256, -1)), x2, "x2")        // section body 127
	add("b14", cid.NewCidV1(cid.Raw, mustSum(x3, mh.SHA2_256, -1)), x3, "x3")        // section body 128
	add("b15", cid.NewCidV1(cid.Raw, mustSum(x5, mh.SHA2_256, -1)), x5, "x5")        // section body 16383
	add("b16", cid.NewCidV1(cid.Raw, mustSum(x6, mh.SHA2_256, -1)), x6, "x6")        // section body 16384
	add("b17", cid.NewCidV1(cid.DagCBOR, mustSum(x7, mh.SHA2_256, -1)), x7, "x7")    // other codec on b4's multihash
	add("b18", cid.NewCidV1(cid.Raw, d1), x7, "x7")                                  // b1's CID with other data (invalid; stores only)

	add("b19", cid.NewCidV1(cid.Raw, idmh(huge)), huge, "xhuge") // identity, 200-byte digest: CID longer than 128 bytes

	add("b20", cid.NewCidV1(cid.DagProtobuf, d1), x1, "x1") // CIDv1 dag-pb on b3's multihash: same codec and hash as the CIDv0, other CID

	x8 := detBytes("x8", 70000)
	add("b21", cid.NewCidV1(cid.Raw, mustSum(x8, mh.SHA2_256, -1)), x8, "x8") // a section larger than 64 KiB

	// identity CID of 305 bytes: as a root its CBOR byte-string head takes three bytes (b10 as a root: one byte)
	x9 := detBytes("x9", 300)
	add("b22", cid.NewCidV1(cid.Raw, idmh(x9)), x9, "x9")

	// two identity CIDs of equal length whose digests share their first 11 bytes: an index must order
	// and find them by the whole digest
	add("b23", cid.NewCidV1(cid.Raw, idmh([]byte("common--pfxA"))), []byte("common--pfxA"), "xpA")
	add("b24", cid.NewCidV1(cid.Raw, idmh([]byte("common--pfxB"))), []byte("common--pfxB"), "xpB")
	// ... and one whose whole digest is a proper prefix of theirs
	add("b25", cid.NewCidV1(cid.Raw, idmh([]byte("common--pfx"))), []byte("common--pfx"), "xpP")

	// a CID whose hash function no hasher is registered for (sha2-256-trunc254-padded, 0x1012): nothing can
	// verify the block, so a verifying reader must fail on it; "valid" is FALSE for it
	x10 := []byte("block under an unregistered hash function")
	un, _ := mh.Encode(mustSum(x10, mh.SHA2_256, -1)[2:], 0x1012)
	add("b26", cid.NewCidV1(cid.Raw, un), x10, "x10")

	// a sha2-256 multihash whose digest field carries one byte more than the function yields: the first 32 bytes are
	// the true digest of the data, so a comparison that stops there takes the block for valid ("valid" is FALSE)
	long, _ := mh.Encode(append(append([]byte{}, mustSum(x7, mh.SHA2_256, -1)[2:]...), 0xaa), mh.SHA2_256)
	add("b27", cid.NewCidV1(cid.Raw, long), x7, "x7")

	// digest identities
	type dk struct{ s string }
	seen := map[string]string{}
	n := 0
	for _, b := range alphabet {
		dm, _ := mh.Decode(b.Cid.Hash())
		k := string(dm.Digest)
		if _, ok := seen[k]; !ok {
			n++
			seen[k] = fmt.Sprintf("D%d", n)
		}
		b.DigI = seen[k]
	}
}

// blockOf maps a real CID back to the alphabet (projection). ok=false means the
// implementation reported something that is not in the alphabet at all.
func blockOfCid(c cid.Cid) (*ABlock, bool) {
	b, ok := alphaByCid[c.KeyString()]
	return b, ok
}

func dataID(data []byte) string {
	ids := make([]string, 0, len(dataByID))
	for id := range dataByID {
		ids = append(ids, id)
	}
	sort.Strings(ids)
	for _, id := range ids {
		if bytes.Equal(dataByID[id], data) {
			return id
		}
	}
	return fmt.Sprintf("?unknown(%d bytes)", len(data))
}

func tlaStr(s string) string { return `"` + s + `"` }

// genAlphabet writes spec/Alphabet.tla and spec/alphabet.json.
func genAlphabet(dir string) error {
	var sb strings.Builder
	sb.WriteString("------------------------------ MODULE Alphabet ------------------------------\n")
	sb.WriteString("(* GENERATED by `vh gen-alphabet` from real CID encodings -- do not edit.            *)\n")
	sb.WriteString("(* id |-> [ver, codec, hcode, dig (digest identity), dlen (digest bytes), clen (CID *)\n")
	sb.WriteString("(* bytes), data (data identity), len (data bytes), valid (data hashes to the CID)]  *)\n")
	sb.WriteString("EXTENDS TLC\n\nBlk ==\n")
	for i, b := range alphabet {
		sep := "  @@ "
		if i == 0 {
			sep = "     "
		}
		fmt.Fprintf(&sb, "%s(%s :> [ver |-> %d, codec |-> %d, hcode |-> %d, dig |-> %s, dlen |-> %d, clen |-> %d, data |-> %s, len |-> %d, valid |-> %s])\n",
			sep, tlaStr(b.ID), b.Ver, b.Codec, b.HCode, tlaStr(b.DigI), b.DLen, len(b.Cid.Bytes()), tlaStr(b.DataI), len(b.Data),
			map[bool]string{true: "TRUE", false: "FALSE"}[b.Valid])
	}
	sb.WriteString("\nAllBlockIds == DOMAIN Blk\n")
	sb.WriteString("IdentityCode == 0\n")
	sb.WriteString("=============================================================================\n")
	if err := os.WriteFile(dir+"/Alphabet.tla", []byte(sb.String()), 0o644); err != nil {
		return err
	}
	type jb struct {
		ID, Cid, DataI, DigI string
		CidLen, DataLen      int
		Valid                bool
	}
	var out []jb
	for _, b := range alphabet {
		out = append(out, jb{b.ID, b.Cid.String(), b.DataI, b.DigI, len(b.Cid.Bytes()), len(b.Data), b.Valid})
	}
	js, _ := json.MarshalIndent(out, "", " ")
	return os.WriteFile(dir+"/alphabet.json", append(js, '\n'), 0o644)
}
