package main

// `car get-dag` against Traversal.tla (C19: "its content equals what the library computes for the
// same request"): the DAG of every case is stored in a CAR (blocks in REVERSE order, so that the
// traversal order cannot be confused with the storage order; the blocks in opt.miss left out), the
// built binary extracts the DAG under the case's selector, and the output must hold the root and
// exactly Out(loads) -- the first occurrences of the model's load sequence -- in that order.
// Without --selector the tool visits every link once; with one it does not: the case's `once`
// decides which invocation expresses it.

import (
	"bytes"
	"encoding/json"
	"fmt"
	"hash/fnv"
	"os"
	"os/exec"
	"path/filepath"
	"runtime"
	"strings"
	"sync"

	"github.com/ipfs/go-cid"
	"github.com/ipld/go-ipld-prime/codec/dagjson"
)

func runGetDagCase(carBin string, raw []byte, dir string) (string, string, bool) {
	var c tvCase
	var o struct {
		Opt struct {
			Miss   []string `json:"miss"`
			Strict bool     `json:"strict"`
		} `json:"opt"`
	}
	if err := json.Unmarshal(raw, &c); err != nil {
		return "harness", err.Error(), false
	}
	json.Unmarshal(raw, &o)
	if c.Opt.Sel.Kind != "all" && c.Opt.Once {
		return "", "", false // a custom selector always disables visit-once in the tool: not expressible
	}
	order := []string{"n1", "n2", "n3", "n4"}[:len(c.Kids)]
	d := buildTvDag(c.Kids, order, "")
	miss := map[string]bool{}
	for _, m := range o.Opt.Miss {
		miss[m] = true
	}
	// source archive: header root n1, blocks n4..n1 except the missing ones
	var secs []byte
	for i := len(order) - 1; i >= 0; i-- {
		if miss[order[i]] {
			continue
		}
		k := d.cids[order[i]]
		secs = append(secs, refSection(k, d.data[k.KeyString()])...)
	}
	src := append(refHeader([]cid.Cid{d.cids["n1"]}), secs...)
	in := filepath.Join(dir, "dag.car")
	os.WriteFile(in, src, 0o644)
	defer os.Remove(in)
	for _, ver := range []int{2, 1} {
		if ver == 1 && len(miss) > 0 {
			continue // the CARv1 path goes through the root module's SelectiveCar, which has no lenient mode
		}
		out := filepath.Join(dir, fmt.Sprintf("got%d.car", ver))
		os.Remove(out)
		hv := fnv.New32a()
		hv.Write(raw)
		if hv.Sum32()%2 == 0 && !miss["n1"] {
			// the output path already holds an earlier, larger result for the same root: it must be replaced, not added to
			pre := exec.Command(carBin, "get-dag", "--version", fmt.Sprint(ver), in, out)
			pre.Dir = dir
			pre.Run()
		}
		args := []string{"get-dag", "--version", fmt.Sprint(ver)}
		if o.Opt.Strict {
			args = append(args, "--strict")
		}
		if !c.Opt.Once {
			var sb bytes.Buffer
			if err := dagjson.Encode(tvSelector(c.Opt.Sel.Kind, c.Opt.Sel.D, c.Opt.Sel.P), &sb); err != nil {
				return "harness", "selector encoding: " + err.Error(), false
			}
			args = append(args, "--selector", sb.String())
		}
		args = append(args, in, out)
		cmd := exec.Command(carBin, args...)
		cmd.Dir = dir
		msg, err := cmd.CombinedOutput()
		tag := fmt.Sprintf("car %s", strings.Join(args[:len(args)-2], " "))
		if c.Err {
			if err == nil {
				return "get-dag/strict-not-refused", tag + ": a block the selector reaches is missing and --strict was given, yet the command succeeded", true
			}
			os.Remove(out)
			continue
		}
		if err != nil {
			return "get-dag/error", fmt.Sprintf("%s failed: %s", tag, strings.TrimSpace(string(msg))), true
		}
		b, _ := os.ReadFile(out)
		payload := b
		if ver == 2 {
			h, err := refParseV2(b)
			if err != nil {
				return "get-dag/malformed", tag + ": " + err.Error(), true
			}
			payload = h.Payload
			if h.Index == nil {
				return "get-dag/malformed", tag + ": CARv2 output without index", true
			}
			ix, err := refDecodeIndex(h.Index)
			if err != nil {
				return "get-dag/malformed", tag + ": index: " + err.Error(), true
			}
			_ = ix
		}
		names, _, _, m := d.sectionsNamed(payload, d.cids["n1"])
		if m != "" {
			return "get-dag/content", tag + ": " + m, true
		}
		if strings.Join(names, ",") != strings.Join(c.Out, ",") {
			return "get-dag/content", fmt.Sprintf("%s: output holds %v, the traversal loads %v (first occurrences %v)", tag, names, c.Loads, c.Out), true
		}
		// closure under the tool's own verifiers
		if m, err := exec.Command(carBin, "inspect", "--full", out).CombinedOutput(); err != nil {
			return "closure/inspect-rejects/get-dag", fmt.Sprintf("%s: `car inspect --full` rejects the output: %s", tag, strings.TrimSpace(string(m))), true
		}
		if m, err := exec.Command(carBin, "verify", out).CombinedOutput(); err != nil {
			return "closure/verify-rejects/get-dag", fmt.Sprintf("%s: `car verify` rejects the output: %s", tag, strings.TrimSpace(string(m))), true
		}
		os.Remove(out)
	}
	return "", "", true
}

func runGetDagReplay(args []string) int {
	tvNoIdentityLeaf = true
	in, out, carBin := args[0], args[1], args[2]
	seed, permille := uint64(1), 1000
	for _, a := range args[3:] {
		if strings.HasPrefix(a, "seed=") {
			fmt.Sscan(a[5:], &seed)
		}
		if strings.HasPrefix(a, "permille=") {
			fmt.Sscan(a[9:], &permille)
		}
	}
	rep := newReport("get-dag")
	jobs := make(chan []byte, 256)
	var wg sync.WaitGroup
	base := "/dev/shm"
	if _, err := os.Stat(base); err != nil {
		base = os.TempDir()
	}
	for w := 0; w < runtime.NumCPU(); w++ {
		wg.Add(1)
		go func() {
			defer wg.Done()
			dir, _ := os.MkdirTemp(base, "vh-gd-")
			defer os.RemoveAll(dir)
			n := 0
			for raw := range jobs {
				cls, msg, ran := runGetDagCase(carBin, raw, dir)
				if !ran && cls == "" {
					continue
				}
				n++
				rep.eval(string(raw[:min(len(raw), 400)]), true)
				if cls == "harness" {
					rep.inconclusive(msg)
					continue
				}
				if cls != "" {
					var c map[string]any
					json.Unmarshal(raw, &c)
					rep.violate("cli/"+cls, fmt.Sprintf("DAG %v options %s: %s", c["kids"], canon(c["opt"]), msg), map[string]any{"family": "get-dag", "case": c})
				}
				if n%500 == 1 {
					var c map[string]any
					json.Unmarshal(raw, &c)
					rep.sample(map[string]any{"dag": c["kids"], "opt": c["opt"]}, 6)
				}
			}
		}()
	}
	err := readTLCRecords(in, func(raw []byte) error {
		if permille < 1000 {
			h := fnv.New64a()
			h.Write(raw)
			if (h.Sum64()+seed*7919)%1000 >= uint64(permille) {
				return nil
			}
		}
		jobs <- append([]byte{}, raw...)
		return nil
	})
	close(jobs)
	wg.Wait()
	if err != nil {
		rep.inconclusive(err.Error())
	}
	rep.write(out)
	if len(rep.ViolClasses) > 0 {
		return 1
	}
	if len(rep.Inconcl) > 0 {
		return 2
	}
	return 0
}
