package main

// Pre-processing of event traces recorded by v2/verifhook's VERIF_TRACE_FILE recorder (the
// repository's own tests built with -tags verif): lock events for LockTrace.tla and the write
// logs of blockstore.ReadWrite sessions for WriteProto.tla.

import (
	"bufio"
	"encoding/json"
	"fmt"
	"os"
	"strings"
)

type upEvent struct {
	Ev   string `json:"ev"`
	Obj  string `json:"obj"`
	Kind string `json:"kind"`
	M    string `json:"m"`
	P    string `json:"p"`
	G    int64  `json:"g"`
	Off  int64  `json:"off"`
	Len  int    `json:"len"`
	N    int    `json:"n"`
	Size int64  `json:"size"`
	Err  bool   `json:"err"`
	Pid  int    `json:"pid"`
	Seq  int    `json:"seq"`
}

func lockKind(kind, m string) string {
	switch kind {
	case "*blockstore.ReadOnly":
		if m == "Close" {
			return "W"
		}
		return "R"
	case "*storage.StorageCar":
		if m == "Put" || m == "Finalize" {
			return "W"
		}
		return "R"
	}
	return "W" // ReadWrite and DeferredCarWriter take the exclusive lock everywhere
}

func runUptracePrep(args []string) int {
	in, locksPath, protoPath := args[0], args[1], args[2]
	f, err := os.Open(in)
	if err != nil {
		fmt.Fprintln(os.Stderr, err)
		return 2
	}
	defer f.Close()
	lf, _ := os.Create(locksPath)
	pf, _ := os.Create(protoPath)
	lw, pw := bufio.NewWriterSize(lf, 1<<20), bufio.NewWriterSize(pf, 1<<20)
	defer func() { lw.Flush(); pw.Flush(); lf.Close(); pf.Close() }()
	objID := map[string]int{}
	id := func(pid int, p string) int {
		k := fmt.Sprintf("%d/%s", pid, p)
		if v, ok := objID[k]; ok {
			return v
		}
		objID[k] = len(objID) + 1
		return objID[k]
	}
	type sess struct {
		sid     int
		v1      bool
		dataoff int64
		n       int
		bs      bool
		lines   []map[string]any
	}
	cur := map[string]*sess{}     // per target
	inGate := map[string]string{} // goroutine -> method currently holding a ReadWrite lock
	nsid := 0
	nlocks, nsess := 0, 0
	flush := func(s *sess) {
		if s == nil || !s.bs {
			return
		}
		nsess++
		for _, l := range s.lines {
			b, _ := json.Marshal(l)
			pw.Write(b)
			pw.WriteByte('\n')
		}
	}
	sc := bufio.NewScanner(f)
	sc.Buffer(make([]byte, 1<<20), 1<<24)
	for sc.Scan() {
		var e upEvent
		if json.Unmarshal(sc.Bytes(), &e) != nil {
			continue
		}
		gk := fmt.Sprintf("%d/%d", e.Pid, e.G)
		switch e.Ev {
		case "gate":
			if e.P == "locked" || e.P == "unlocking" {
				b, _ := json.Marshal(map[string]any{"obj": id(e.Pid, e.Obj), "k": lockKind(e.Kind, e.M), "p": e.P, "g": int(e.G)})
				lw.Write(b)
				lw.WriteByte('\n')
				nlocks++
				if e.Kind == "*blockstore.ReadWrite" {
					if e.P == "locked" {
						inGate[gk] = e.M
					} else {
						delete(inGate, gk)
					}
				}
			}
		case "write", "truncate":
			if e.Err {
				continue
			}
			tk := fmt.Sprintf("%d/%s", e.Pid, e.Obj)
			call := "open"
			switch inGate[gk] {
			case "PutMany":
				call = "put"
			case "Finalize", "FinalizeReadOnly", "Close":
				call = "finalize"
			}
			s := cur[tk]
			start := s == nil || (call == "open" && s.n > 0 && s.lines[len(s.lines)-1]["call"] != "open" && s.lines[len(s.lines)-1]["call"] != "reopen")
			if s != nil && s.n > 0 && call == "open" {
				// a resumption begins with [truncate ;] zero characteristics ; zero offsets
				last := s.lines[len(s.lines)-1]
				// (a truncation that is not the first event of its session is the one that closes a resumption: a header
				// clearing that follows it belongs to the next reopen of the same file)
				if e.Ev == "truncate" || (e.Off == 11 && e.Len == 16 && (last["kind"] != "truncate" || s.n > 1)) {
					start = true
				}
				// ... and ends with a truncation at the last complete section: same session
				if e.Ev == "truncate" && last["call"] == "reopen" && last["kind"] == "write" && last["off"] == int64(27) {
					start = false
				}
			}
			if start {
				flush(s)
				nsid++
				s = &sess{sid: nsid}
				cur[tk] = s
				// how does it begin?
				switch {
				case e.Ev == "write" && e.Off == 0 && e.Len == 11:
					s.bs = true // only ReadWrite hooks its pragma write
				case e.Ev == "write" && e.Off == 0:
					s.v1 = true
				case e.Ev == "truncate" || (e.Off == 11 && e.Len == 16):
					// resumed CARv2 session
				default:
					s.v1 = call == "put" // a resumed CARv1 session issues no write before its first Put
				}
			}
			// a session that began with a truncation is a resumed one; whether CARv1 or CARv2 shows in its second
			// event: a CARv2 resumption goes on to zero the header, a CARv1 one has nothing more to do before a Put
			if s.n == 1 && s.lines[0]["kind"] == "truncate" && !(e.Ev == "write" && e.Off == 11 && e.Len == 16) && e.Ev != "truncate" {
				s.v1 = true
				s.lines[0]["v1"] = true
			}
			if call != "open" {
				s.bs = true
			}
			if call == "open" && (e.Ev == "truncate" || e.Off == 11 || e.Off == 27) {
				call = "reopen"
			}
			wk := "other"
			switch {
			case e.Ev == "truncate":
				wk = "truncate"
			case !s.v1 && e.Off == 0 && e.Len == 11:
				wk = "pragma"
			case !s.v1 && e.Off == 11:
				wk = "v2header-characteristics"
			case !s.v1 && e.Off == 27:
				wk = "v2header-offsets"
			case call == "put":
				wk = "section"
			case call == "finalize":
				wk = "index"
			case call == "open":
				wk = "v1header"
				if s.dataoff == 0 && !s.v1 {
					s.dataoff = e.Off
				}
			}
			kind := "write"
			if e.Ev == "truncate" {
				kind = "truncate"
			}
			s.n++
			s.lines = append(s.lines, map[string]any{"sid": s.sid, "j": s.n, "kind": kind, "off": e.Off, "len": e.Len, "size": e.Size,
				"call": call, "wkind": wk, "v1": s.v1, "dataoff": s.dataoff})
		}
	}
	for _, s := range cur {
		flush(s)
	}
	fmt.Printf("{\"lock_events\":%d,\"write_sessions\":%d,\"objects\":%d}\n", nlocks, nsess, len(objID))
	return 0
}

var _ = strings.TrimSpace
