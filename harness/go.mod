module verifharness

go 1.23.0

require (
	github.com/ipfs/go-block-format v0.2.0
	github.com/ipfs/go-cid v0.5.0
	github.com/ipfs/go-ipld-format v0.6.0
	github.com/ipfs/go-unixfsnode v1.10.0
	github.com/ipld/go-car v0.6.2
	github.com/ipld/go-car/cmd v0.0.0
	github.com/ipld/go-car/v2 v2.14.2
	github.com/ipld/go-codec-dagpb v1.7.0
	github.com/ipld/go-ipld-prime v0.21.0
	github.com/multiformats/go-multicodec v0.9.0
	github.com/multiformats/go-multihash v0.2.3
)

require (
	github.com/go-logr/logr v1.4.2 // indirect
	github.com/go-logr/stdr v1.2.2 // indirect
	github.com/gogo/protobuf v1.3.2 // indirect
	github.com/google/uuid v1.6.0 // indirect
	github.com/hashicorp/golang-lru v1.0.2 // indirect
	github.com/ipfs/bbloom v0.0.4 // indirect
	github.com/ipfs/boxo v0.27.4 // indirect
	github.com/ipfs/go-bitfield v1.1.0 // indirect
	github.com/ipfs/go-blockservice v0.5.2 // indirect
	github.com/ipfs/go-datastore v0.6.0 // indirect
	github.com/ipfs/go-ipfs-blockstore v1.3.1 // indirect
	github.com/ipfs/go-ipfs-ds-help v1.1.1 // indirect
	github.com/ipfs/go-ipfs-exchange-interface v0.2.1 // indirect
	github.com/ipfs/go-ipfs-util v0.0.3 // indirect
	github.com/ipfs/go-ipld-cbor v0.2.0 // indirect
	github.com/ipfs/go-ipld-legacy v0.2.1 // indirect
	github.com/ipfs/go-log v1.0.5 // indirect
	github.com/ipfs/go-log/v2 v2.5.1 // indirect
	github.com/ipfs/go-merkledag v0.11.0 // indirect
	github.com/ipfs/go-metrics-interface v0.0.1 // indirect
	github.com/ipfs/go-verifcid v0.0.3 // indirect
	github.com/jbenet/goprocess v0.1.4 // indirect
	github.com/klauspost/cpuid/v2 v2.2.9 // indirect
	github.com/libp2p/go-buffer-pool v0.1.0 // indirect
	github.com/mattn/go-isatty v0.0.20 // indirect
	github.com/mr-tron/base58 v1.2.0 // indirect
	github.com/multiformats/go-base32 v0.1.0 // indirect
	github.com/multiformats/go-base36 v0.2.0 // indirect
	github.com/multiformats/go-multibase v0.2.0 // indirect
	github.com/multiformats/go-varint v0.0.7 // indirect
	github.com/opentracing/opentracing-go v1.2.0 // indirect
	github.com/petar/GoLLRB v0.0.0-20210522233825-ae3b015fd3e9 // indirect
	github.com/polydawn/refmt v0.89.0 // indirect
	github.com/spaolacci/murmur3 v1.1.0 // indirect
	github.com/whyrusleeping/cbor v0.0.0-20171005072247-63513f603b11 // indirect
	github.com/whyrusleeping/cbor-gen v0.1.2 // indirect
	github.com/whyrusleeping/chunker v0.0.0-20181014151217-fe64bd25879f // indirect
	go.opentelemetry.io/otel v1.31.0 // indirect
	go.opentelemetry.io/otel/metric v1.31.0 // indirect
	go.opentelemetry.io/otel/trace v1.31.0 // indirect
	go.uber.org/atomic v1.11.0 // indirect
	go.uber.org/multierr v1.11.0 // indirect
	go.uber.org/zap v1.27.0 // indirect
	golang.org/x/crypto v0.35.0 // indirect
	golang.org/x/exp v0.0.0-20241217172543-b2144cdd0a67 // indirect
	golang.org/x/sys v0.30.0 // indirect
	golang.org/x/xerrors v0.0.0-20240903120638-7835f813f4da // indirect
	google.golang.org/protobuf v1.36.5 // indirect
	lukechampine.com/blake3 v1.3.0 // indirect
)

replace github.com/ipld/go-car => /repo

replace github.com/ipld/go-car/v2 => /repo/v2

replace github.com/ipld/go-car/cmd => /repo/cmd
