package main

import (
	"bufio"
	"encoding/json"
	"fmt"
	"io"
	"os"
)

// readTLCRecords extracts the JSON records a specification printed with PrintT(ToJson(..))
// from raw TLC output (each is a line holding one JSON-quoted string).
func readTLCRecords(path string, fn func(raw []byte) error) error {
	var in io.Reader
	if path == "-" {
		in = os.Stdin
	} else {
		f, err := os.Open(path)
		if err != nil {
			return err
		}
		defer f.Close()
		in = f
	}
	br := bufio.NewReaderSize(in, 1<<20)
	for {
		line, err := br.ReadBytes('\n')
		if len(line) > 2 && line[0] == '"' && (line[1] == '{' || line[1] == '[') {
			var s string
			l := line
			for len(l) > 0 && (l[len(l)-1] == '\n' || l[len(l)-1] == '\r') {
				l = l[:len(l)-1]
			}
			if e := json.Unmarshal(l, &s); e != nil {
				return fmt.Errorf("bad TLC record: %v: %.120s", e, l)
			}
			if e := fn([]byte(s)); e != nil {
				return e
			}
		} else if len(line) > 1 && line[0] == '{' {
			// plain ndjson is accepted too
			if e := fn(line); e != nil {
				return e
			}
		}
		if err == io.EOF {
			return nil
		}
		if err != nil {
			return err
		}
	}
}
