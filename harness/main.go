package main

import (
	"fmt"
	"os"
)

func main() {
	if len(os.Args) < 2 {
		fmt.Fprintln(os.Stderr, "usage: vh <cmd> ...")
		os.Exit(2)
	}
	switch os.Args[1] {
	case "gen-alphabet":
		if err := genAlphabet(os.Args[2]); err != nil {
			fmt.Fprintln(os.Stderr, err)
			os.Exit(2)
		}
	case "store-replay":
		os.Exit(runStoreReplay(os.Args[2:]))
	case "archive-replay":
		os.Exit(runArchiveReplay(os.Args[2:]))
	case "index-replay":
		os.Exit(runIndexReplay(os.Args[2:]))
	case "transform-replay":
		os.Exit(runTransformReplay(os.Args[2:]))
	case "deferred-replay":
		os.Exit(runDeferredReplay(os.Args[2:]))
	case "crash-enum":
		os.Exit(runCrashEnum(os.Args[2:]))
	case "fault-enum":
		os.Exit(runFaultEnum(os.Args[2:]))
	case "conc-stress":
		os.Exit(runConcStress(os.Args[2:]))
	case "conc-explore":
		os.Exit(runConcExplore(os.Args[2:]))
	case "extract-replay":
		os.Exit(runExtractReplay(os.Args[2:]))
	case "tree-replay":
		os.Exit(runTreeReplay(os.Args[2:]))
	case "cli-replay":
		os.Exit(runCliReplay(os.Args[2:]))
	case "getdag-replay":
		os.Exit(runGetDagReplay(os.Args[2:]))
	case "traversal-replay":
		os.Exit(runTraversalReplay(os.Args[2:]))
	case "parser-limits":
		os.Exit(runParserLimits(os.Args[2:]))
	case "parser-fuzz":
		os.Exit(runParserFuzz(os.Args[2:]))
	case "parser-fuzz-child":
		os.Exit(runParserFuzzChild(os.Args[2:]))
	case "fault-bs-enum":
		os.Exit(runFaultBsEnum(os.Args[2:]))
	case "fault-bs-child":
		os.Exit(runFaultBsChild(os.Args[2:]))
	case "uptrace-prep":
		os.Exit(runUptracePrep(os.Args[2:]))
	case "hashfuzz":
		os.Exit(runHashFuzz(os.Args[2:]))
	case "reader-replay":
		os.Exit(runReaderReplay(os.Args[2:]))
	case "store-replay-one":
		b, err := os.ReadFile(os.Args[3])
		if err != nil {
			fmt.Fprintln(os.Stderr, err)
			os.Exit(2)
		}
		v, err := replayStoreCase(os.Args[2], b)
		if err != nil {
			fmt.Println("cannot replay:", err)
			os.Exit(2)
		}
		if v != nil {
			fmt.Printf("reproduced: class=%s: %s\n", v.Class, v.Detail)
			os.Exit(1)
		}
		fmt.Println("not reproduced: the recorded behaviour is now accepted")
		os.Exit(0)
	default:
		fmt.Fprintln(os.Stderr, "unknown command", os.Args[1])
		os.Exit(2)
	}
}
