package main

import "math/rand"

func newRng(seed int64) *rand.Rand { return rand.New(rand.NewSource(seed)) }
