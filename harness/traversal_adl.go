package main

// C15, one scenario outside the enumerated DAGs: a UnixFS file of several chunks selected through the "unixfs" ADL
// (the leaves are loaded lazily, while the matched bytes node is read). The loads observed on the link system are
// the oracle, as everywhere in C15: the counting pass and the writing pass of the prepared writer load the same
// blocks, what was announced is what is written, and the payload holds the first occurrences of the loads.

import (
	"bytes"
	"context"
	"fmt"
	"io"

	"github.com/ipfs/go-cid"
	"github.com/ipfs/go-unixfsnode"
	ufsbuilder "github.com/ipfs/go-unixfsnode/data/builder"
	carv2 "github.com/ipld/go-car/v2"
	dagpb "github.com/ipld/go-codec-dagpb"
	"github.com/ipld/go-ipld-prime/datamodel"
	"github.com/ipld/go-ipld-prime/linking"
	cidlink "github.com/ipld/go-ipld-prime/linking/cid"
	basicnode "github.com/ipld/go-ipld-prime/node/basic"
	sb "github.com/ipld/go-ipld-prime/traversal/selector/builder"
)

func traversalADLCases() [][2]string {
	var out [][2]string
	store := cidlink.Memory{Bag: make(map[string][]byte)}
	var loads []string
	ls := cidlink.DefaultLinkSystem()
	ls.TrustedStorage = true
	ls.StorageWriteOpener = store.OpenWrite
	ls.StorageReadOpener = func(lc linking.LinkContext, l datamodel.Link) (io.Reader, error) {
		loads = append(loads, l.(cidlink.Link).Cid.String())
		return store.OpenRead(lc, l)
	}
	unixfsnode.AddUnixFSReificationToLinkSystem(&ls)
	data := detBytes("a file of four chunks", 1000000)
	rt, _, err := ufsbuilder.BuildUnixFSFile(bytes.NewReader(data), "", &ls)
	if err != nil {
		return [][2]string{{"harness", "cannot build the file: " + err.Error()}}
	}
	_, root, err := cid.CidFromBytes([]byte(rt.Binary()))
	if err != nil {
		return [][2]string{{"harness", err.Error()}}
	}
	chooser := dagpb.AddSupportToChooser(func(datamodel.Link, linking.LinkContext) (datamodel.NodePrototype, error) {
		return basicnode.Prototype.Any, nil
	})
	ssb := sb.NewSelectorSpecBuilder(basicnode.Prototype.Any)
	for _, tc := range []struct {
		name string
		sel  datamodel.Node
	}{
		{"whole file through the unixfs ADL", ssb.ExploreInterpretAs("unixfs", ssb.Matcher()).Node()},
		{"first 300000 bytes through the unixfs ADL", ssb.ExploreInterpretAs("unixfs", ssb.MatcherSubset(0, 300000)).Node()},
	} {
		opt := carv2.WithTraversalPrototypeChooser(chooser)
		loads = nil
		var v1 bytes.Buffer
		n1, err := carv2.TraverseV1(context.Background(), &ls, root, tc.sel, &v1, opt)
		if err != nil {
			out = append(out, [2]string{"v2.TraverseV1/adl", tc.name + ": " + err.Error()})
			continue
		}
		v1loads := firstOcc(append([]string{}, loads...))
		if int(n1) != v1.Len() {
			out = append(out, [2]string{"v2.TraverseV1/adl/returned-count", fmt.Sprintf("%s: returned %d, wrote %d", tc.name, n1, v1.Len())})
		}
		got, m := adlPayloadCids(v1.Bytes())
		if m != "" {
			out = append(out, [2]string{"v2.TraverseV1/adl/payload", tc.name + ": " + m})
		} else if fmt.Sprint(got) != fmt.Sprint(v1loads) {
			out = append(out, [2]string{"v2.TraverseV1/adl/blocks", fmt.Sprintf("%s: archive holds %d blocks, the traversal loaded %d distinct ones", tc.name, len(got), len(v1loads))})
		}
		loads = nil
		w, err := carv2.NewSelectiveWriter(context.Background(), &ls, root, tc.sel, opt)
		if err != nil {
			out = append(out, [2]string{"v2.SelectiveWriter/adl/prepare", tc.name + ": " + err.Error()})
			continue
		}
		pass1 := firstOcc(append([]string{}, loads...))
		loads = nil
		var v2 bytes.Buffer
		n2, err := w.WriteTo(&v2)
		pass2 := firstOcc(append([]string{}, loads...))
		if err != nil {
			out = append(out, [2]string{"v2.SelectiveWriter/adl/write-error", fmt.Sprintf("%s: WriteTo failed after the counting pass loaded %d blocks and the writing pass %d: %v", tc.name, len(pass1), len(pass2), err)})
			continue
		}
		if int(n2) != v2.Len() {
			out = append(out, [2]string{"v2.SelectiveWriter/adl/returned-count", fmt.Sprintf("%s: returned %d, wrote %d", tc.name, n2, v2.Len())})
		}
		if fmt.Sprint(pass1) != fmt.Sprint(pass2) {
			out = append(out, [2]string{"v2.SelectiveWriter/adl/passes", fmt.Sprintf("%s: the counting pass loaded %d distinct blocks, the writing pass %d", tc.name, len(pass1), len(pass2))})
		}
		h, err := refParseV2(v2.Bytes())
		if err != nil {
			out = append(out, [2]string{"v2.SelectiveWriter/adl/payload", tc.name + ": " + err.Error()})
			continue
		}
		if !bytes.Equal(h.Payload, v1.Bytes()) {
			out = append(out, [2]string{"v2.SelectiveWriter/adl/payload", fmt.Sprintf("%s: the CARv2 payload (%d bytes) is not the CARv1 the single pass writes (%d bytes)", tc.name, len(h.Payload), v1.Len())})
		}
	}
	return out
}

func adlPayloadCids(payload []byte) ([]string, string) {
	v1, err := refParseV1(payload, false)
	if err != nil {
		return nil, err.Error()
	}
	var out []string
	for _, s := range v1.Secs {
		out = append(out, s.Cid.String())
	}
	return out, ""
}
