package main

// C16: transient write faults (error returns and short writes) at every write of a session
// and every byte within it, followed by every continuation. Storage API: through memFile's
// fault hook. One observation per (session, write, persisted bytes, continuation), validated
// by TLC against FaultObs!FaultSafe.

import (
	"bufio"
	"bytes"
	"encoding/json"
	"errors"
	"fmt"
	"os"
	"runtime"
	"sync"

	"github.com/ipld/go-car/v2/storage"
)

type ftObs struct {
	Sid     int      `json:"sid"`
	W       int      `json:"w"`
	K       int      `json:"k"`
	Cont    string   `json:"cont"`
	Call    string   `json:"call"`   // API call that met the fault: open | put | finalize
	Wkind   string   `json:"wkind"`  // which write of that call
	Stream  bool     `json:"stream"` // plain io.Writer target (cannot be rewound)
	V1      bool     `json:"v1"`
	ErrRet  bool     `json:"errret"`  // the call that met the fault returned an error
	Visible bool     `json:"visible"` // the failed block is reported by Has/Get afterwards
	FinOK   bool     `json:"finok"`   // a later Finalize returned nil
	Well    bool     `json:"well"`    // finished archive well formed (reference decode + Inspect)
	Exact   bool     `json:"exact"`   // it holds exactly the blocks whose Put returned nil
	Acked   []string `json:"acked"`
	Msg     string   `json:"msg"`
	Faults  int      `json:"faults"` // number of faults injected in the session (1 or 2)
	// Reopened: Close returned an error and a Put after it was accepted
	Reopened bool `json:"reopened"`
}

var errInjected = errors.New("injected write fault")

type ftPlan struct {
	O        sOpts
	Stream   bool
	Puts     []string
	Many     int  // blockstore only: the first Many blocks are written by one PutMany call
	Deferred bool // the session runs on a deferred.DeferredCarWriter for a path (kernel short writes, like the blockstore)
	Second   int  // blockstore only: after the first fault a second one is armed Second bytes into the next section written
	// Prior: blocks an earlier, fault-free session has put into the same file (storage API only); PriorFin: that
	// session ended with Finalize. The faulted session is a resumed one (OpenReadableWritable).
	Prior    []string
	PriorFin bool
}

// failingStream: plain io.Writer with the same fault hook.
type failingStream struct {
	buf  bytes.Buffer
	n    int
	fail func(widx int, p []byte) (int, error)
}

func (f *failingStream) Write(p []byte) (int, error) {
	idx := f.n
	f.n++
	if f.fail != nil {
		if k, err := f.fail(idx, p); err != nil {
			f.buf.Write(p[:k])
			return k, err
		}
	}
	return f.buf.Write(p)
}

// k2 >= 0: the write that follows the faulted one (the first write of the next call) fails too,
// persisting k2 bytes: two transient faults in one session.
func runFaultPoint(sid int, pl ftPlan, w, k int, cont string, k2 int) (ftObs, int) {
	o := ftObs{Sid: sid, W: w, K: k, Cont: cont, Stream: pl.Stream, V1: pl.O.V1, Acked: []string{}}
	widx := 0
	fired := false
	faults := 0
	second := func(n int) (int, error, bool) {
		if fired && k2 >= 0 && faults == 1 {
			faults++
			return min(k2, n), errInjected, true
		}
		return 0, nil, false
	}
	lastLen := -1
	mem := &memFile{}
	stream := &failingStream{}
	mem.fail = func(op *wop) (int, error) {
		i := widx
		widx++
		if n, err, ok := second(len(op.Data)); ok {
			return n, err
		}
		if i == w && !fired {
			fired = true
			faults++
			lastLen = len(op.Data)
			kk := k
			if kk > len(op.Data) {
				kk = len(op.Data)
			}
			return kk, errInjected
		}
		return 0, nil
	}
	stream.fail = func(i int, p []byte) (int, error) {
		if n, err, ok := second(len(p)); ok {
			return n, err
		}
		if i == w && !fired {
			fired = true
			faults++
			lastLen = len(p)
			kk := k
			if kk > len(p) {
				kk = len(p)
			}
			return kk, errInjected
		}
		return 0, nil
	}
	var sc interface {
		Put(ctxT, string, []byte) error
		Has(ctxT, string) (bool, error)
		Finalize() error
	}
	var err error
	roots := idsToCids([]string{"b1"})
	if pl.Stream {
		sc, err = storage.NewWritable(stream, roots, pl.O.carOpts()...)
	} else if len(pl.Prior) > 0 {
		hook := mem.fail
		mem.fail = nil
		sc0, err0 := storage.NewReadableWritable(mem, roots, pl.O.carOpts()...)
		if err0 != nil {
			o.Call, o.Msg = "open", "the earlier session could not be created: "+err0.Error()
			return o, lastLen
		}
		for _, id := range pl.Prior {
			b := alphaByID[id]
			if e := sc0.Put(bg, b.Cid.KeyString(), b.Data); e != nil {
				o.Call, o.Msg = "open", "the earlier session: "+e.Error()
				return o, lastLen
			}
		}
		if pl.PriorFin {
			sc0.Finalize()
		}
		mem.fail = hook
		sc, err = storage.OpenReadableWritable(mem, roots, pl.O.carOpts()...)
	} else {
		sc, err = storage.NewReadableWritable(mem, roots, pl.O.carOpts()...)
	}
	if err != nil {
		o.Call, o.ErrRet = "open", true
		if !fired {
			o.Msg = "open failed without an injected fault: " + err.Error()
			o.ErrRet = false
		}
		return o, lastLen
	}
	if fired {
		// the fault hit a write of the constructor and it returned no error
		o.Call, o.ErrRet = "open", false
		return o, lastLen
	}
	acked := map[string]bool{}
	for _, id := range pl.Prior {
		acked[id] = true // acknowledged by the earlier session: still owed
	}
	var failedBlock string
	stop := false
	for pi := 0; pi < len(pl.Puts) && !stop; pi++ {
		id := pl.Puts[pi]
		b := alphaByID[id]
		was := fired
		nf := faults
		err := sc.Put(bg, b.Cid.KeyString(), b.Data)
		if was && faults > nf {
			// this call met the second fault: same obligations
			if err == nil {
				o.ErrRet = false
				o.Msg += " the call that met the second fault returned nil;"
			} else if has, herr := sc.Has(bg, b.Cid.KeyString()); herr == nil && has {
				o.Visible = true
			}
			continue
		}
		if !was && fired {
			o.Call, o.ErrRet = "put", err != nil
			failedBlock = id
			if err == nil {
				acked[id] = true
			}
			// is the failed block visible?
			if err != nil {
				if has, herr := sc.Has(bg, b.Cid.KeyString()); herr == nil && has {
					o.Visible = true
				}
				if g, ok := sc.(interface {
					Get(ctxT, string) ([]byte, error)
				}); ok && !pl.Stream {
					if _, gerr := g.Get(bg, b.Cid.KeyString()); gerr == nil {
						o.Visible = true
					}
				}
			}
			switch cont {
			case "retry":
				if err != nil {
					nf2 := faults
					if err2 := sc.Put(bg, b.Cid.KeyString(), b.Data); err2 == nil {
						acked[id] = true
						if faults > nf2 {
							o.ErrRet = false
							o.Msg += " the retry met the second fault and returned nil;"
						}
					}
				}
			case "finalize":
				stop = true
			}
			continue
		}
		if err == nil {
			acked[id] = true
		}
	}
	was := fired
	nff := faults
	ferr := sc.Finalize()
	if was && faults > nff && ferr == nil {
		o.ErrRet = false
		o.Msg += " Finalize met the second fault and returned nil;"
	}
	if !was && fired {
		o.Call, o.ErrRet = "finalize", ferr != nil
		if cont == "retry" && ferr != nil {
			ferr = sc.Finalize()
		}
	}
	_ = failedBlock
	o.Faults = faults
	for id := range acked {
		o.Acked = append(o.Acked, id)
	}
	o.FinOK = ferr == nil
	if !fired {
		o.Call = "none"
		o.ErrRet = true
	}
	if o.FinOK {
		var out []byte
		if pl.Stream {
			out = stream.buf.Bytes()
		} else {
			out = mem.data
		}
		var want []string
		for id := range acked {
			want = append(want, id)
		}
		m := wellFormedHolding(out, pl.O, []string{"b1"}, want, nil)
		o.Well = m == ""
		o.Msg = m
		// exactly the acknowledged blocks
		o.Exact = true
		payload := out
		if !pl.O.V1 {
			if h, err := refParseV2(out); err == nil {
				payload = h.Payload
			}
		}
		if v1, err := refParseV1(payload, false); err == nil {
			for _, s := range v1.Secs {
				blk, ok := blockOfCid(s.Cid)
				if !ok || !acked[blk.ID] {
					o.Exact = false
					o.Msg += fmt.Sprintf(" archive holds %s whose Put did not succeed;", s.Cid)
				}
			}
		}
	}
	return o, lastLen
}

func runFaultEnum(args []string) int {
	out, obsPath := args[0], args[1]
	thorough := len(args) > 2 && args[2] == "tier=thorough"
	rep := newReport("fault")
	var plans []ftPlan
	puts := [][]string{{"b1", "b4"}, {"b12", "b13"}, {"b6", "b1", "b8"}} // the last: three hash functions => several index buckets
	if thorough {
		puts = append(puts, []string{"b6", "b14", "b1"}, []string{"b15"})
	}
	for _, p := range puts {
		plans = append(plans,
			ftPlan{O: sOpts{Maxcid: 2048, Codec: "mh"}, Puts: p},
			ftPlan{O: sOpts{Maxcid: 2048, Codec: "sorted", Dpad: 1, Ipad: 7}, Puts: p},
			ftPlan{O: sOpts{Maxcid: 2048, Codec: "mh", V1: true}, Puts: p},
			ftPlan{O: sOpts{Maxcid: 2048, Codec: "mh", V1: true}, Stream: true, Puts: p})
	}
	// resumed sessions: the file already holds an earlier session's blocks (left open, or finalized) when the faulted session starts
	for _, fin := range []bool{false, true} {
		plans = append(plans,
			ftPlan{O: sOpts{Maxcid: 2048, Codec: "mh"}, Puts: []string{"b4", "b13"}, Prior: []string{"b1", "b12"}, PriorFin: fin},
			ftPlan{O: sOpts{Maxcid: 2048, Codec: "mh", V1: true}, Puts: []string{"b4", "b13"}, Prior: []string{"b1", "b12"}, PriorFin: fin})
	}
	type job struct {
		sid, w, k int
		cont      string
		k2        int
	}
	jobs := make(chan job, 1024)
	of, _ := os.Create(obsPath)
	ow := bufio.NewWriterSize(of, 1<<20)
	var mu sync.Mutex
	var wg sync.WaitGroup
	for i := 0; i < runtime.NumCPU(); i++ {
		wg.Add(1)
		go func() {
			defer wg.Done()
			for j := range jobs {
				var o ftObs
				func() {
					defer func() {
						if r := recover(); r != nil {
							o = ftObs{Sid: j.sid + 1, W: j.w, K: j.k, Cont: j.cont, Call: "panic", Msg: fmt.Sprint(r), Acked: []string{}}
						}
					}()
					o, _ = runFaultPoint(j.sid+1, plans[j.sid], j.w, j.k, j.cont, j.k2)
				}()
				b, _ := json.Marshal(o)
				mu.Lock()
				ow.Write(b)
				ow.WriteByte('\n')
				mu.Unlock()
				rep.eval(fmt.Sprintf("%d/%d/%d/%s", j.sid, j.w, j.k, j.cont), true)
				rep.count("fault_in_"+o.Call, 1)
			}
		}()
	}
	for sid, pl := range plans {
		// learn the write lengths with a fault-free probe at each index
		for w := 0; ; w++ {
			_, n := runFaultPoint(sid+1, pl, w, 0, "next", -1)
			if n < 0 {
				break // no such write
			}
			for _, cont := range []string{"retry", "next", "finalize"} {
				for k := 0; k < n || k == 0; k++ {
					if n > 300 && k > 30 && k < n-30 && k%101 != 0 {
						continue
					}
					jobs <- job{sid, w, k, cont, -1}
				}
				// two faults: the following write fails as well, after 0, 1 or 3 bytes
				for _, k2 := range []int{0, 1, 3} {
					jobs <- job{sid, w, n / 2, cont, k2}
				}
			}
		}
		if sid < 4 {
			rep.sample(map[string]any{"opts": pl.O, "stream": pl.Stream, "puts": pl.Puts}, 4)
		}
	}
	close(jobs)
	wg.Wait()
	ow.Flush()
	of.Close()
	rep.write(out)
	return 0
}
