package main

// C08: concurrent use of the writable stores.
//   conc-stress : free-running goroutines (build with -race: any report makes the process exit 66),
//                 history recorded with linearization points from the lock hooks, watchdog for
//                 deadlocks, final file checked for "each distinct block exactly once".
//   conc-explore: gate-driven systematic exploration of small programs (every order in which
//                 the goroutines pass the lock gates), same checks.
// Histories are written as ndjson and validated by TLC against ConcTrace.tla.

import (
	"bufio"
	"bytes"
	"context"
	"encoding/json"
	"fmt"
	"os"
	"path/filepath"
	"runtime"
	"sort"
	"strconv"
	"strings"
	"sync"
	"sync/atomic"
	"time"

	blocks "github.com/ipfs/go-block-format"
	"github.com/ipfs/go-cid"
	carv2 "github.com/ipld/go-car/v2"
	"github.com/ipld/go-car/v2/blockstore"
	"github.com/ipld/go-car/v2/storage"
	"github.com/ipld/go-car/v2/storage/deferred"
	"github.com/ipld/go-car/v2/verifhook"
	mh "github.com/multiformats/go-multihash"
)

type ccEvent struct {
	Seq int64    `json:"seq"`
	G   int      `json:"g"`
	Ev  string   `json:"ev"` // inv | lin | resp
	Op  string   `json:"op"`
	Key string   `json:"key"`
	Res string   `json:"res"`
	Run int      `json:"run"`
	Set []string `json:"set"`
}

type ccRecorder struct {
	mu   sync.Mutex
	seq  int64
	evs  []ccEvent
	gmap sync.Map // goroutine id -> *ccInflight
}

type ccInflight struct {
	g       int
	op, key string
	linDone bool
	set     []string
}

func goid() int64 {
	var buf [64]byte
	n := runtime.Stack(buf[:], false)
	s := strings.TrimPrefix(string(buf[:n]), "goroutine ")
	i := strings.IndexByte(s, ' ')
	id, _ := strconv.ParseInt(s[:i], 10, 64)
	return id
}

func (r *ccRecorder) add(e ccEvent) {
	if e.Set == nil {
		e.Set = []string{}
	}
	r.mu.Lock()
	r.seq++
	e.Seq = r.seq
	r.evs = append(r.evs, e)
	r.mu.Unlock()
}

// lin is called from the hook, i.e. while the store's lock is held.
func (r *ccRecorder) lin(method string) {
	v, ok := r.gmap.Load(goid())
	if !ok {
		return
	}
	f := v.(*ccInflight)
	if f.linDone {
		return
	}
	f.linDone = true
	r.add(ccEvent{G: f.g, Ev: "lin", Op: f.op, Key: f.key})
}

func ccBlock(i int) blocks.Block {
	data := []byte(fmt.Sprintf("conc-block-%d", i))
	h, _ := mh.Sum(data, mh.SHA2_256, -1)
	b, _ := blocks.NewBlockWithCid(data, cid.NewCidV1(cid.Raw, h))
	return b
}

// ccStore: the operations of the three concurrent objects under one interface.
type ccStore interface {
	Put(b blocks.Block) error
	Has(c cid.Cid) (bool, error)
	Get(c cid.Cid) ([]byte, error, bool)
	Keys() ([]cid.Cid, error, bool)
	Roots() ([]cid.Cid, error, bool)
	GetSize(c cid.Cid) (int, error, bool)
	Finalize() error
	Bytes() []byte
}

type ccRW struct {
	bs   *blockstore.ReadWrite
	path string
}

func (s *ccRW) Put(b blocks.Block) error    { return s.bs.Put(bg, b) }
func (s *ccRW) Has(c cid.Cid) (bool, error) { return s.bs.Has(bg, c) }
func (s *ccRW) Get(c cid.Cid) ([]byte, error, bool) {
	b, err := s.bs.Get(bg, c)
	if err != nil {
		return nil, err, true
	}
	return b.RawData(), nil, true
}
func (s *ccRW) Keys() ([]cid.Cid, error, bool) {
	ch, err := s.bs.AllKeysChan(bg)
	if err != nil {
		return nil, err, true
	}
	var out []cid.Cid
	for c := range ch {
		out = append(out, c)
	}
	return out, nil, true
}
func (s *ccRW) Finalize() error { return s.bs.Finalize() }
func (s *ccRW) GetSize(c cid.Cid) (int, error, bool) {
	n, err := s.bs.GetSize(bg, c)
	return n, err, true
}
func (s *ccRW) Roots() ([]cid.Cid, error, bool) {
	r, err := s.bs.Roots()
	return r, err, true
}
func (s *ccRW) Bytes() []byte { b, _ := os.ReadFile(s.path); return b }

type ccSC struct {
	sc  *storage.StorageCar
	mem *memFile
}

func (s *ccSC) Put(b blocks.Block) error    { return s.sc.Put(bg, b.Cid().KeyString(), b.RawData()) }
func (s *ccSC) Has(c cid.Cid) (bool, error) { return s.sc.Has(bg, c.KeyString()) }
func (s *ccSC) Get(c cid.Cid) ([]byte, error, bool) {
	d, err := s.sc.Get(bg, c.KeyString())
	return d, err, true
}
func (s *ccSC) Keys() ([]cid.Cid, error, bool)     { return nil, nil, false }
func (s *ccSC) Finalize() error                    { return s.sc.Finalize() }
func (s *ccSC) GetSize(cid.Cid) (int, error, bool) { return 0, nil, false }
func (s *ccSC) Roots() ([]cid.Cid, error, bool)    { return s.sc.Roots(), nil, true }
func (s *ccSC) Bytes() []byte {
	s.mem.mu.Lock()
	defer s.mem.mu.Unlock()
	return append([]byte{}, s.mem.data...)
}

type ccDF struct {
	d   *deferred.DeferredCarWriter
	buf *lockedBuf
	// OnPut listeners registered before the concurrent phase: one persistent, one one-shot
	cbAll, cbOnce atomic.Int64
}

// extraCheck: every Put that was not refused fires the persistent listener exactly once and the
// one-shot listener fires at most once over the life of the writer.
func (s *ccDF) extraCheck(evs []ccEvent) string {
	inv, ok := 0, 0
	for _, e := range evs {
		if e.Op == "put" && e.Ev == "inv" {
			inv++
		}
		if e.Op == "put" && e.Ev == "resp" && e.Res == "ok" {
			ok++
		}
	}
	all, once := int(s.cbAll.Load()), int(s.cbOnce.Load())
	if once > 1 {
		return fmt.Sprintf("a one-shot OnPut listener fired %d times", once)
	}
	if all < ok || all > inv {
		return fmt.Sprintf("the OnPut listener fired %d times for %d Put calls of which %d succeeded", all, inv, ok)
	}
	if ok > 0 && once != 1 {
		return fmt.Sprintf("the one-shot OnPut listener fired %d times although %d Puts succeeded", once, ok)
	}
	return ""
}

func storeExtraCheck(st ccStore, evs []ccEvent) string {
	if x, ok := st.(interface{ extraCheck([]ccEvent) string }); ok {
		return x.extraCheck(evs)
	}
	return ""
}

type lockedBuf struct {
	mu sync.Mutex
	b  bytes.Buffer
}

func (l *lockedBuf) Write(p []byte) (int, error) {
	l.mu.Lock()
	defer l.mu.Unlock()
	return l.b.Write(p)
}

func (s *ccDF) Put(b blocks.Block) error            { return s.d.Put(bg, b.Cid().KeyString(), b.RawData()) }
func (s *ccDF) Has(c cid.Cid) (bool, error)         { return s.d.Has(bg, c.KeyString()) }
func (s *ccDF) Get(c cid.Cid) ([]byte, error, bool) { return nil, nil, false }
func (s *ccDF) Keys() ([]cid.Cid, error, bool)      { return nil, nil, false }
func (s *ccDF) Finalize() error                     { return s.d.Close() }
func (s *ccDF) GetSize(cid.Cid) (int, error, bool)  { return 0, nil, false }
func (s *ccDF) Roots() ([]cid.Cid, error, bool)     { return nil, nil, false }
func (s *ccDF) Bytes() []byte {
	s.buf.mu.Lock()
	defer s.buf.mu.Unlock()
	return append([]byte{}, s.buf.b.Bytes()...)
}

func newCCStore(kind, dir string) (ccStore, error) {
	roots := []cid.Cid{ccBlock(0).Cid()}
	switch kind {
	case "blockstore":
		p := filepath.Join(dir, "cc.car")
		os.Remove(p)
		bs, err := blockstore.OpenReadWrite(p, roots)
		if err != nil {
			return nil, err
		}
		return &ccRW{bs, p}, nil
	case "storage":
		// slow writes: a lookup by another goroutine may fall between a Put's bookkeeping and its bytes landing
		m := &memFile{slow: true}
		sc, err := storage.NewReadableWritable(m, roots)
		if err != nil {
			return nil, err
		}
		return &ccSC{sc, m}, nil
	default:
		lb := &lockedBuf{}
		df := &ccDF{d: deferred.NewDeferredCarWriterForStream(lb, roots), buf: lb}
		df.d.OnPut(func(int) { df.cbAll.Add(1) }, false)
		df.d.OnPut(func(int) { df.cbOnce.Add(1) }, true)
		return df, nil
	}
}

// listingScenarios: (1) request a listing, read one key, Put from the same goroutine, drain;
// (2) request a listing, read nothing, cancel it, Put and Finalize.
func listingScenarios(dir string) (string, string) {
	p := filepath.Join(dir, "ls.car")
	os.Remove(p)
	defer os.Remove(p)
	bs, err := blockstore.OpenReadWrite(p, []cid.Cid{ccBlock(0).Cid()})
	if err != nil {
		return "", ""
	}
	within := func(what string, f func() error) (string, string) {
		done := make(chan error, 1)
		go func() { done <- f() }()
		select {
		case err := <-done:
			if err != nil {
				return "listing/error", what + ": " + err.Error()
			}
			return "", ""
		case <-time.After(10 * time.Second):
			return "deadlock", what + " did not return within 10 s while a key listing was open"
		}
	}
	bs.Put(bg, ccBlock(1))
	bs.Put(bg, ccBlock(2))
	ch, err := bs.AllKeysChan(bg)
	if err != nil {
		return "listing/error", err.Error()
	}
	got := map[string]bool{}
	if c, ok := <-ch; ok {
		got[string(c.Hash())] = true
	}
	if cls, msg := within("Put by the goroutine that holds a partly read listing", func() error { return bs.Put(bg, ccBlock(3)) }); cls != "" {
		return cls, msg
	}
	if has, err := bs.Has(bg, ccBlock(3).Cid()); err != nil || !has {
		return "listing/lost-put", fmt.Sprintf("a Put made while a listing was open is not found afterwards (has=%v err=%v)", has, err)
	}
	for c := range ch {
		got[string(c.Hash())] = true
	}
	for i := 1; i <= 2; i++ {
		if !got[string(ccBlock(i).Cid().Hash())] {
			return "listing/incomplete", fmt.Sprintf("key %d, put before the listing was requested, is missing from it", i)
		}
	}
	for k := range got {
		known := false
		for i := 1; i <= 3; i++ {
			known = known || k == string(ccBlock(i).Cid().Hash())
		}
		if !known {
			return "listing/invented", "the listing reports a key that was never put"
		}
	}
	for i := 10; i < 22; i++ { // more keys than the listing's channel buffers: the sender is still at work when the listing is cancelled
		bs.Put(bg, ccBlock(i))
	}
	ctx, cancel := context.WithCancel(context.Background())
	defer cancel()
	ch2, err := bs.AllKeysChan(ctx)
	if err != nil {
		return "listing/error", err.Error()
	}
	<-ch2
	cancel()
	// a consumer that ranges over the listing must come to an end: a cancelled listing closes its channel
	if cls, msg := within("ranging over a cancelled listing until its channel is closed", func() error {
		for range ch2 {
		}
		return nil
	}); cls != "" {
		return cls, msg
	}
	if cls, msg := within("Put after an abandoned (cancelled) listing", func() error { return bs.Put(bg, ccBlock(4)) }); cls != "" {
		return cls, msg
	}
	if cls, msg := within("Finalize after an abandoned (cancelled) listing", bs.Finalize); cls != "" {
		return cls, msg
	}
	return "", ""
}

// putManyScenario: one goroutine puts a batch of 300 blocks with a single PutMany while another keeps asking
// for the first and the last block of the batch, in that order.
func putManyScenario(dir string, rounds int) (string, string) {
	batch := make([]blocks.Block, 300)
	for i := range batch {
		batch[i] = ccBlock(1000 + i)
	}
	first, last := batch[0].Cid(), batch[len(batch)-1].Cid()
	n := 4 + rounds/4
	for r := 0; r < n; r++ {
		p := filepath.Join(dir, "pm.car")
		os.Remove(p)
		bs, err := blockstore.OpenReadWrite(p, []cid.Cid{ccBlock(0).Cid()})
		if err != nil {
			return "", ""
		}
		done := make(chan error, 1)
		go func() { done <- bs.PutMany(bg, batch) }()
		var bad string
		for stop := false; !stop; {
			select {
			case err := <-done:
				if err != nil {
					bad = "PutMany failed: " + err.Error()
				}
				stop = true
			default:
				hf, e1 := bs.Has(bg, first)
				hl, e2 := bs.Has(bg, last)
				if e1 == nil && e2 == nil && hf && !hl {
					bad = "a reader found the first block of a PutMany batch and, afterwards, not its last: the batch is not one operation"
					<-done
					stop = true
				}
			}
		}
		bs.Discard()
		os.Remove(p)
		if bad != "" {
			return "putmany-not-atomic", fmt.Sprintf("round %d: %s", r, bad)
		}
	}
	return "", ""
}

type ccOp struct {
	Op  string
	Key int
}

// execOp runs one operation with inv/resp events.
func execOp(rec *ccRecorder, st ccStore, g int, run int, op ccOp) {
	key := fmt.Sprintf("k%d", op.Key)
	f := &ccInflight{g: g, op: op.Op, key: key}
	id := goid()
	rec.gmap.Store(id, f)
	rec.add(ccEvent{G: g, Ev: "inv", Op: op.Op, Key: key, Run: run})
	res := ""
	b := ccBlock(op.Key)
	switch op.Op {
	case "put":
		if err := st.Put(b); err != nil {
			res = "err"
		} else {
			res = "ok"
		}
	case "has":
		h, err := st.Has(b.Cid())
		if err != nil {
			res = "err"
		} else {
			res = fmt.Sprint(h)
		}
	case "getsize": // reported like get: found / notfound / err
		n, err, ok := st.GetSize(b.Cid())
		switch {
		case !ok:
			res = "skip"
		case err != nil && isNotFound(err):
			res = "notfound"
		case err != nil:
			res = "err"
		case n == len(b.RawData()):
			res = "found"
		default:
			res = "corrupt"
		}
	case "roots":
		rs, err, ok := st.Roots()
		switch {
		case !ok:
			res = "skip"
		case err != nil:
			res = "err"
		case len(rs) == 1 && rs[0].Equals(ccBlock(0).Cid()):
			res = "roots"
		default:
			res = fmt.Sprintf("wrong-roots:%v", rs)
		}
	case "get":
		d, err, ok := st.Get(b.Cid())
		switch {
		case !ok:
			res = "skip"
		case err != nil && isNotFound(err):
			res = "notfound"
		case err != nil:
			res = "err"
		case bytes.Equal(d, b.RawData()):
			res = "found"
		default:
			res = "corrupt"
		}
	case "keys":
		ks, err, ok := st.Keys()
		switch {
		case !ok:
			res = "skip"
		case err != nil:
			res = "err"
		default:
			var names []string
			for _, c := range ks {
				name := "?" + c.String()
				for i := 0; i < 64; i++ {
					if bytes.Equal(ccBlock(i).Cid().Hash(), c.Hash()) {
						name = fmt.Sprintf("k%d", i)
					}
				}
				names = append(names, name)
			}
			sort.Strings(names)
			res = "set"
			f.set = names
		}
	case "finalize":
		if err := st.Finalize(); err != nil {
			res = "err"
		} else {
			res = "ok"
		}
	}
	rec.gmap.Delete(id)
	rec.add(ccEvent{G: g, Ev: "resp", Op: op.Op, Key: key, Res: res, Run: run, Set: f.set})
}

// finalFileCheck: every block whose Put returned ok before Finalize returned must be in the
// file exactly once; nothing else may be there.
func finalFileCheck(kind string, b []byte, acked map[string]bool, attempted map[string]bool) string {
	payload := b
	if kind == "deferred" && len(b) == 0 && len(acked) == 0 {
		return "" // nothing was put successfully: the deferred writer never created its output
	}
	if kind != "deferred" {
		h, err := refParseV2(b)
		if err != nil {
			return "finalized file undecodable: " + err.Error()
		}
		payload = h.Payload
		if h.Index != nil {
			if _, err := refDecodeIndex(h.Index); err != nil {
				return "index undecodable: " + err.Error()
			}
		}
	}
	v1, err := refParseV1(payload, false)
	if err != nil {
		return "payload undecodable: " + err.Error()
	}
	count := map[string]int{}
	for _, s := range v1.Secs {
		name := ""
		for i := 0; i < 64; i++ {
			if ccBlock(i).Cid().Equals(s.Cid) {
				name = fmt.Sprintf("k%d", i)
				if !bytes.Equal(s.Data, ccBlock(i).RawData()) {
					return "section of " + name + " has wrong bytes"
				}
			}
		}
		if name == "" {
			return "unknown section " + s.Cid.String()
		}
		count[name]++
	}
	for k, n := range count {
		if n > 1 {
			return fmt.Sprintf("block %s is in the finalized file %d times", k, n)
		}
		if !attempted[k] {
			return "block " + k + " in the file was never put"
		}
	}
	for k := range acked {
		if count[k] != 1 {
			return "block " + k + " whose Put returned nil is not in the finalized file"
		}
	}
	return ""
}

func installLinHook(rec *ccRecorder, gate func(obj any, method, point string)) {
	verifhook.Set(&verifhook.Hooks{Gate: func(obj any, method, point string) {
		if point == "locked" {
			rec.lin(method)
		}
		if gate != nil {
			gate(obj, method, point)
		}
	}})
}

// runStress: free-running goroutines.
func runConcStress(args []string) int {
	out, histPath := args[0], args[1]
	seed, rounds := int64(1), 40
	for _, a := range args[2:] {
		if strings.HasPrefix(a, "seed=") {
			fmt.Sscan(a[5:], &seed)
		}
		if strings.HasPrefix(a, "rounds=") {
			fmt.Sscan(a[7:], &rounds)
		}
	}
	rep := newReport("conc-stress")
	hf, _ := os.Create(histPath)
	hw := bufio.NewWriterSize(hf, 1<<20)
	defer func() { hw.Flush(); hf.Close() }()
	dir, _ := os.MkdirTemp("", "vh-cc-")
	defer os.RemoveAll(dir)
	rng := newRng(seed)
	// listings that are not drained at once: a partly read or abandoned key listing must not keep
	// writers (not even the listing goroutine itself) out
	if cls, msg := listingScenarios(dir); cls != "" {
		rep.violate("conc/"+cls+"/blockstore", msg, map[string]any{"family": "conc", "kind": "blockstore", "scenario": "partial-listing"})
	}
	rep.eval("listing-scenarios", true)
	// PutMany is one operation: a concurrent reader sees none or all of the batch, and a finalization
	// that gets in finds the batch complete or absent
	if cls, msg := putManyScenario(dir, rounds); cls != "" {
		rep.violate("conc/"+cls+"/blockstore", msg, map[string]any{"family": "conc", "kind": "blockstore", "scenario": "putmany-batch"})
	}
	rep.eval("putmany-scenario", true)
	run := 0
	for round := 0; round < rounds; round++ {
		for _, kind := range []string{"blockstore", "storage", "deferred"} {
			run++
			st, err := newCCStore(kind, dir)
			if err != nil {
				rep.inconclusive(err.Error())
				continue
			}
			rec := &ccRecorder{}
			installLinHook(rec, nil)
			G := 2 + rng.Intn(15)
			nkeys := 2 + rng.Intn(6)
			progs := make([][]ccOp, G)
			finalizer := rng.Intn(G)
			for g := range progs {
				n := 3 + rng.Intn(10)
				for i := 0; i < n; i++ {
					ops := []string{"put", "put", "has", "get", "keys", "roots", "getsize"}
					progs[g] = append(progs[g], ccOp{ops[rng.Intn(len(ops))], 1 + rng.Intn(nkeys)})
				}
				if g == finalizer {
					pos := rng.Intn(len(progs[g]) + 1)
					progs[g] = append(progs[g][:pos], append([]ccOp{{"finalize", 0}}, progs[g][pos:]...)...)
				}
			}
			var wg sync.WaitGroup
			start := make(chan struct{})
			for g := range progs {
				wg.Add(1)
				go func(g int) {
					defer wg.Done()
					defer func() {
						if r := recover(); r != nil {
							rep.violate("conc/panic/"+kind, fmt.Sprintf("goroutine panicked: %v", r), map[string]any{"family": "conc", "kind": kind, "seed": seed, "round": round})
						}
					}()
					<-start
					for _, op := range progs[g] {
						execOp(rec, st, g, run, op)
					}
				}(g)
			}
			done := make(chan struct{})
			go func() { wg.Wait(); close(done) }()
			close(start)
			select {
			case <-done:
			case <-time.After(20 * time.Second):
				rep.violate("conc/deadlock/"+kind, "goroutines did not finish within 20 s", map[string]any{"family": "conc", "kind": kind, "seed": seed, "round": round, "progs": progs})
				rep.write(out)
				return 1
			}
			verifhook.Set(nil)
			// final file
			acked, attempted := map[string]bool{}, map[string]bool{}
			for _, e := range rec.evs {
				if e.Op == "put" && e.Ev == "inv" {
					attempted[e.Key] = true
				}
				if e.Op == "put" && e.Ev == "resp" && e.Res == "ok" {
					acked[e.Key] = true
				}
			}
			if m := finalFileCheck(kind, st.Bytes(), acked, attempted); m != "" {
				rep.violate("conc/final-file/"+kind, m, map[string]any{"family": "conc", "kind": kind, "seed": seed, "round": round, "goroutines": G})
			}
			if m := storeExtraCheck(st, rec.evs); m != "" {
				rep.violate("conc/listeners/"+kind, m, map[string]any{"family": "conc", "kind": kind, "seed": seed, "round": round, "goroutines": G})
			}
			for _, e := range rec.evs {
				e.Run = run
				b, _ := json.Marshal(e)
				hw.Write(b)
				hw.WriteByte('\n')
			}
			rep.eval(fmt.Sprintf("%s/%d/%d", kind, seed, round), G > 2)
			rep.count("operations", len(rec.evs)/3)
			if round < 2 {
				rep.sample(map[string]any{"kind": kind, "goroutines": G, "ops_first_goroutine": progs[0]}, 6)
			}
		}
	}
	rep.write(out)
	if len(rep.ViolClasses) > 0 {
		return 1
	}
	return 0
}

var _ = atomic.AddInt64
var _ = carv2.PragmaSize
