package main

// C19: every sub-command of the built `car` binary on TLC-enumerated archives, compared with
// the operators of Cli.tla; every emitted archive must pass `car inspect --full` and, when its
// roots are among its blocks, `car verify`.

import (
	"bytes"
	"encoding/binary"
	"encoding/hex"
	"encoding/json"
	"fmt"
	"github.com/ipld/go-car/v2/index"
	"hash/fnv"
	"os"
	"os/exec"
	"path/filepath"
	"runtime"
	"sort"
	"strconv"
	"strings"
	"sync"
)

type cliFilter struct {
	Sel []string `json:"sel"`
	Inv bool     `json:"inv"`
	Ver int      `json:"ver"`
	Out Arch     `json:"out"`
}

type cliCase struct {
	A           Arch                `json:"a"`
	Filter      []cliFilter         `json:"filter"`
	Inspectable bool                `json:"inspectable"`
	Verifiable  bool                `json:"verifiable"`
	RecLow      [][]any             `json:"reclow"`
	RecHigh     [][]any             `json:"rechigh"`
	List        []string            `json:"list"`
	DetOk       map[string]bool     `json:"detok"`
	DetKeysLow  [][]int64           `json:"detkeyslow"`
	DetKeysHigh [][]int64           `json:"detkeyshigh"`
	GetBlock    map[string][]string `json:"getblock"`
	Append      []struct {
		S1  []string `json:"s1"`
		S2  []string `json:"s2"`
		Out Arch     `json:"out"`
	} `json:"append"`
	Concat2   Arch `json:"concat2"`
	Other     Arch `json:"other"`
	ConcatAO  Arch `json:"concat_ao"`
	ConcatOA  Arch `json:"concat_oa"`
	ConcatAOA Arch `json:"concat_aoa"`
}

type cliCtx struct {
	car string
	dir string
	c   *cliCase
	rep *Report
}

func (x *cliCtx) run(stdin []byte, args ...string) ([]byte, []byte, error) {
	cmd := exec.Command(x.car, args...)
	cmd.Dir = x.dir
	var so, se bytes.Buffer
	cmd.Stdout, cmd.Stderr = &so, &se
	if stdin != nil {
		cmd.Stdin = bytes.NewReader(stdin)
	}
	err := cmd.Run()
	return so.Bytes(), se.Bytes(), err
}

func (x *cliCtx) viol(class, detail string, extra map[string]any) {
	r := map[string]any{"family": "cli", "a": x.c.A}
	for k, v := range extra {
		r[k] = v
	}
	x.rep.violate("cli/"+class, "input "+canon(x.c.A)+": "+detail, r)
}

func archInspectable(a *Arch) bool {
	for _, id := range a.Secs {
		if !alphaByID[id].Valid {
			return false
		}
	}
	return true
}

func archVerifiable(a *Arch) bool {
	if !archInspectable(a) || len(a.Roots) == 0 {
		return false
	}
	for _, r := range a.Roots {
		ok := false
		for _, s := range a.Secs {
			if alphaByID[s].Cid.Equals(alphaByID[r].Cid) {
				ok = true
			}
		}
		if !ok {
			return false
		}
	}
	return true
}

// closure: the tool's own verdicts on an archive it emitted.
func (x *cliCtx) closure(what, path string, inspectable, verifiable bool) {
	if inspectable {
		if _, se, err := x.run(nil, "inspect", "--full", path); err != nil {
			x.viol("closure/inspect-rejects/"+what, fmt.Sprintf("`car inspect --full` rejects the output of %s: %s", what, strings.TrimSpace(string(se))), map[string]any{"cmd": what})
		}
	}
	if verifiable {
		if _, se, err := x.run(nil, "verify", path); err != nil {
			x.viol("closure/verify-rejects/"+what, fmt.Sprintf("`car verify` rejects the output of %s: %s", what, strings.TrimSpace(string(se))), map[string]any{"cmd": what})
		}
	}
}

func recsFrom(rows [][]any, codec uint64) []RefRec {
	var out []RefRec
	for _, r := range rows {
		out = append(out, refRecOf(alphaByID[r[0].(string)].Cid, uint64(r[1].(float64)), codec))
	}
	return out
}

// detachList binds Cli!DetachList: `car detach-index list` over the index file det (once by path, once through standard
// input). want is what the reference decoder reads from the same bytes (file order); keysLow/keysHigh are the
// specification's group keys <<hash code, digest width>> for a regenerated index without / with identity CIDs
// (nil: the records are an existing index's, only the reference order is demanded).
func (x *cliCtx) detachList(what, det string, codec string, want []RefRec, keysLow, keysHigh [][]int64) {
	b, _ := os.ReadFile(det)
	for _, form := range []string{"path", "stdin"} {
		var so, se []byte
		var err error
		if form == "path" {
			so, se, err = x.run(nil, "detach-index", "list", det)
		} else {
			so, se, err = x.run(b, "detach-index", "list")
		}
		x.rep.eval(what+"/detach-list/"+codec+"/"+form, true)
		x.rep.count("detach_list_runs", 1)
		// C19 speaks of the emitted index, not of the listing's form: what the listing adds on its own (which codec it
		// refuses, its line format, its order, reading from a pipe) is compared with Cli!DetachList and counted, and
		// only an index whose records the CLI cannot give back is a violation.
		if !x.c.DetOk[codec] {
			if err == nil {
				x.rep.count("detach_list_differs_from_spec/accepted-not-iterable", 1)
			}
			continue
		}
		if err != nil {
			if form == "stdin" {
				x.rep.count("detach_list_differs_from_spec/stdin-error: "+lastLine(se), 1)
			} else {
				x.viol("detach-list/error", fmt.Sprintf("%s (%s): %s", what, form, strings.TrimSpace(string(se))), nil)
			}
			continue
		}
		var got []RefRec
		bad := ""
		for _, ln := range strings.Split(strings.TrimRight(string(so), "\n"), "\n") {
			if ln == "" && len(so) == 0 {
				break
			}
			f := strings.Fields(ln)
			if len(f) != 2 {
				bad = "line not of the form <multihash> <offset>: " + ln
				break
			}
			raw, e1 := hex.DecodeString(f[0])
			off, e2 := strconv.ParseUint(f[1], 10, 64)
			code, n1 := binary.Uvarint(raw)
			if e1 != nil || e2 != nil || n1 <= 0 {
				bad = "unreadable line: " + ln
				break
			}
			dl, n2 := binary.Uvarint(raw[n1:])
			if n2 <= 0 || uint64(len(raw)-n1-n2) != dl {
				bad = "multihash with a wrong length field: " + ln
				break
			}
			got = append(got, RefRec{HCode: int64(code), Digest: raw[n1+n2:], Offset: off})
		}
		if bad != "" {
			x.rep.count("detach_list_differs_from_spec/format", 1)
			continue
		}
		g, w := recMultiset(got), recMultiset(want)
		if !multisetLE(g, w) || !multisetLE(w, g) {
			x.viol("detach-list/records", fmt.Sprintf("%s (%s): listed %v, the index holds %v", what, form, g, w), nil)
			continue
		}
		// order: the specification's group keys, and the reference decoder's file order inside the groups
		keys := make([][]int64, len(got))
		for i, r := range got {
			keys[i] = []int64{r.HCode, int64(len(r.Digest))}
		}
		if keysLow != nil && fmt.Sprint(keys) != fmt.Sprint(keysLow) && fmt.Sprint(keys) != fmt.Sprint(keysHigh) {
			x.rep.count("detach_list_differs_from_spec/group-order", 1)
			continue
		}
		for i := range got {
			if got[i].key() != want[i].key() {
				x.rep.count("detach_list_differs_from_spec/order", 1)
				break
			}
		}
	}
}

func lastLine(b []byte) string {
	l := strings.Split(strings.TrimSpace(string(b)), "\n")
	s := l[len(l)-1]
	if i := strings.Index(s, " seek "); i >= 0 { // drop the log timestamp
		s = s[i+1:]
	}
	return s
}

func multisetLE(a, b map[string]int) bool {
	for k, v := range a {
		if b[k] < v {
			return false
		}
	}
	return true
}

func runCliCase(x *cliCtx, sample func(string) bool) {
	c := x.c
	in := filepath.Join(x.dir, "in.car")
	os.WriteFile(in, c.A.build(), 0o644)
	payload := c.A.payload()
	// list
	if so, se, err := x.run(nil, "list", in); err != nil {
		x.viol("list/error", string(se), nil)
	} else {
		got := strings.Fields(string(so))
		var want []string
		for _, id := range c.List {
			want = append(want, alphaByID[id].Cid.String())
		}
		if strings.Join(got, " ") != strings.Join(want, " ") {
			x.viol("list/order", fmt.Sprintf("car list prints %v, scan order is %v", got, want), nil)
		}
	}
	x.rep.eval(canon(c.A)+"list", true)
	// filter
	for _, f := range c.Filter {
		key := fmt.Sprintf("filter/%v/%v/%d", f.Sel, f.Inv, f.Ver)
		if !sample(canon(c.A) + key) {
			continue
		}
		var cids []string
		for _, id := range f.Sel {
			cids = append(cids, alphaByID[id].Cid.String())
		}
		// the list comes from a file or from stdin, with or without a newline after its last line
		hv := fnv.New32a()
		hv.Write([]byte(canon(c.A) + key))
		variant := hv.Sum32() % 4
		list := strings.Join(cids, "\n")
		if variant%2 == 0 || len(cids) == 0 {
			list += "\n"
		}
		cf := filepath.Join(x.dir, "cids.txt")
		os.WriteFile(cf, []byte(list), 0o644)
		out := filepath.Join(x.dir, "filtered.car")
		os.Remove(out)
		args := []string{"filter", "--version", fmt.Sprint(f.Ver)}
		var stdin []byte
		if variant < 2 {
			args = append(args, "--cid-file", cf)
		} else {
			stdin = []byte(list)
		}
		if f.Inv {
			args = append(args, "--inverse")
		}
		args = append(args, in, out)
		_, se, err := x.run(stdin, args...)
		x.rep.eval(canon(c.A)+key, true)
		if err != nil {
			x.viol("filter/error", fmt.Sprintf("%v: %s", args[:len(args)-2], strings.TrimSpace(string(se))), map[string]any{"filter": f})
			continue
		}
		got, _ := os.ReadFile(out)
		if want := f.Out.build(); !bytes.Equal(got, want) {
			x.viol("filter/content", fmt.Sprintf("%v: output (%d bytes) is not the archive of roots %v sections %v (%d bytes)", args[1:len(args)-2], len(got), f.Out.Roots, f.Out.Secs, len(want)), map[string]any{"filter": f})
			continue
		}
		x.closure("filter", out, archInspectable(&f.Out), archVerifiable(&f.Out))
	}
	// filter --append
	for _, ap := range c.Append {
		key := fmt.Sprintf("append/%v/%v", ap.S1, ap.S2)
		if !sample(canon(c.A) + key) {
			continue
		}
		out := filepath.Join(x.dir, "appended.car")
		os.Remove(out)
		cf := filepath.Join(x.dir, "cids.txt")
		os.WriteFile(cf, []byte(alphaByID[ap.S1[0]].Cid.String()+"\n"), 0o644)
		if _, se, err := x.run(nil, "filter", "--cid-file", cf, in, out); err != nil {
			x.viol("filter/error", string(se), nil)
			continue
		}
		os.WriteFile(cf, []byte(alphaByID[ap.S2[0]].Cid.String()+"\n"), 0o644)
		_, se, err := x.run(nil, "filter", "--append", "--cid-file", cf, in, out)
		x.rep.eval(canon(c.A)+key, true)
		if err != nil {
			x.viol("filter-append/error", strings.TrimSpace(string(se)), map[string]any{"append": ap})
			continue
		}
		got, _ := os.ReadFile(out)
		if want := ap.Out.build(); !bytes.Equal(got, want) {
			x.viol("filter-append/content", fmt.Sprintf("filter %v then --append %v: output is not roots %v sections %v", ap.S1, ap.S2, ap.Out.Roots, ap.Out.Secs), map[string]any{"append": ap})
			continue
		}
		x.closure("filter --append", out, archInspectable(&ap.Out), archVerifiable(&ap.Out))
	}
	if cliOnlyFilter {
		return
	}
	// index
	for _, codec := range []string{"car-multihash-index-sorted", "car-index-sorted", "none"} {
		for _, ver := range []int{2, 1} {
			if ver == 1 && codec != "none" {
				continue
			}
			key := fmt.Sprintf("index/%s/%d", codec, ver)
			out := filepath.Join(x.dir, "indexed.car")
			os.Remove(out)
			_, se, err := x.run(nil, "index", "--codec", codec, "--version", fmt.Sprint(ver), in, out)
			x.rep.eval(canon(c.A)+key, true)
			if err != nil {
				x.viol("index/error", fmt.Sprintf("%s: %s", key, strings.TrimSpace(string(se))), nil)
				continue
			}
			got, _ := os.ReadFile(out)
			outArch := c.A
			outArch.Dpad, outArch.Ipad, outArch.Full, outArch.Ver = 0, 0, false, ver
			if ver == 1 {
				if !bytes.Equal(got, payload) {
					x.viol("index/payload-changed", key+": output is not the unchanged payload", nil)
					continue
				}
				outArch.Idx = "none"
			} else {
				h, err := refParseV2(got)
				if err != nil {
					x.viol("index/malformed", key+": "+err.Error(), nil)
					continue
				}
				if !bytes.Equal(h.Payload, payload) || h.DataOffset != 51 {
					x.viol("index/payload-changed", key+": payload inside the output differs from the input's payload", nil)
					continue
				}
				if codec == "none" {
					if h.IndexOffset != 0 || len(got) != 51+len(payload) {
						x.viol("index/none-has-index", key+": an index or trailing bytes were written", nil)
					}
					outArch.Idx = "none"
				} else {
					cn := uint64(codecMhIndexSorted)
					outArch.Idx = "mh"
					if codec == "car-index-sorted" {
						cn, outArch.Idx = codecIndexSorted, "sorted"
					}
					ix, err := refDecodeIndex(h.Index)
					if err != nil || ix.Codec != cn || ix.Consumed != len(h.Index) {
						x.viol("index/index-malformed", fmt.Sprintf("%s: embedded index undecodable or of the wrong codec (%v)", key, err), nil)
						continue
					}
					gotM := recMultiset(ix.Recs)
					if !multisetLE(recMultiset(recsFrom(c.RecLow, cn)), gotM) || !multisetLE(gotM, recMultiset(recsFrom(c.RecHigh, cn))) {
						x.viol("index/records", fmt.Sprintf("%s: index records %v are not those of a regenerated index (without identity: %v, with: %v)", key, gotM, c.RecLow, c.RecHigh), nil)
						continue
					}
					if !ix.CodesAscending || !ix.WidthsAscending || !ix.DigestsAscending {
						x.viol("index/not-canonical", key+": index not in canonical order", nil)
					}
				}
			}
			x.closure("index", out, c.Inspectable, c.Verifiable)
			// detach-index gives back exactly the index bytes
			if ver == 2 && codec != "none" {
				det := filepath.Join(x.dir, "detached.idx")
				os.Remove(det)
				if _, se, err := x.run(nil, "detach-index", out, det); err != nil {
					x.viol("detach/error", strings.TrimSpace(string(se)), nil)
				} else {
					d, _ := os.ReadFile(det)
					h, _ := refParseV2(got)
					if h == nil || !bytes.Equal(d, h.Index) {
						x.viol("detach/bytes", "detach-index output differs from the embedded index bytes", nil)
					} else if ix, err := refDecodeIndex(d); err == nil {
						x.detachList("index", det, outArch.Idx, ix.Recs, c.DetKeysLow, c.DetKeysHigh)
					}
				}
			}
		}
	}
	// index create
	for _, codec := range []string{"car-multihash-index-sorted", "car-index-sorted"} {
		outIdx := filepath.Join(x.dir, "created.idx")
		os.Remove(outIdx)
		_, se, err := x.run(nil, "index", "--codec", codec, "create", in, outIdx)
		x.rep.eval(canon(c.A)+"index-create/"+codec, true)
		if err != nil {
			x.viol("index-create/error", strings.TrimSpace(string(se)), nil)
			continue
		}
		b, _ := os.ReadFile(outIdx)
		cn := uint64(codecMhIndexSorted)
		if codec == "car-index-sorted" {
			cn = codecIndexSorted
		}
		ix, err := refDecodeIndex(b)
		if err != nil || ix.Codec != cn {
			x.viol("index-create/malformed", fmt.Sprintf("%s: %v", codec, err), nil)
			continue
		}
		g, w := recMultiset(ix.Recs), recMultiset(recsFrom(c.RecLow, cn))
		if !multisetLE(g, w) || !multisetLE(w, g) {
			x.viol("index-create/records", fmt.Sprintf("%s: records %v, a regenerated index has %v", codec, g, w), nil)
		}
	}
	// detach-index of the input itself
	if c.A.Ver == 2 && c.A.Idx != "none" {
		det := filepath.Join(x.dir, "detached2.idx")
		os.Remove(det)
		if _, se, err := x.run(nil, "detach-index", in, det); err != nil {
			x.viol("detach/error", strings.TrimSpace(string(se)), nil)
		} else if d, _ := os.ReadFile(det); !bytes.Equal(d, c.A.indexBytes()) {
			x.viol("detach/bytes", "detach-index output differs from the input's index bytes", nil)
		} else if ix, err := refDecodeIndex(d); err == nil {
			x.detachList("input", det, c.A.Idx, ix.Recs, nil, nil)
		}
	}
	// get-block
	ids := make([]string, 0, len(c.GetBlock))
	for id := range c.GetBlock {
		ids = append(ids, id)
	}
	sort.Strings(ids)
	for _, id := range ids {
		allowed := c.GetBlock[id]
		so, _, err := x.run(nil, "get-block", in, alphaByID[id].Cid.String())
		x.rep.eval(canon(c.A)+"get-block/"+id, true)
		if len(allowed) == 0 {
			if err == nil && !(isIdentityCid(alphaByID[id].Cid)) {
				x.viol("get-block/absent-found", "get-block of absent "+id+" succeeded", nil)
			}
			continue
		}
		if err != nil {
			x.viol("get-block/error", "get-block of present "+id+" failed", nil)
			continue
		}
		if !inList(allowed, dataID(so)) {
			x.viol("get-block/bytes", fmt.Sprintf("get-block %s returned %s, allowed %v", id, dataID(so), allowed), nil)
		}
	}
	// concat (CARv1 output)
	{
		out := filepath.Join(x.dir, "concat.car")
		os.Remove(out)
		_, se, err := x.run(nil, "concat", "-o", out, in, in)
		x.rep.eval(canon(c.A)+"concat", true)
		if len(c.A.Roots) == 0 {
			// the root-module reader used by concat refuses archives without roots: nothing is claimed
		} else if err != nil {
			x.viol("concat/error", strings.TrimSpace(string(se)), nil)
		} else {
			got, _ := os.ReadFile(out)
			if want := c.Concat2.build(); !bytes.Equal(got, want) {
				x.viol("concat/content", fmt.Sprintf("concat of the input with itself is not roots %v sections %v", c.Concat2.Roots, c.Concat2.Secs), nil)
			} else {
				x.closure("concat", out, archInspectable(&c.Concat2), archVerifiable(&c.Concat2))
			}
		}
		// inputs whose headers differ in length: a second archive with two roots, before / after / between
		if len(c.A.Roots) > 0 && len(c.Other.Secs) > 0 {
			oin := filepath.Join(x.dir, "other.car")
			os.WriteFile(oin, c.Other.build(), 0o644)
			for _, k := range []struct {
				name string
				ins  []string
				want *Arch
			}{{"a+other", []string{in, oin}, &c.ConcatAO}, {"other+a", []string{oin, in}, &c.ConcatOA}, {"a+other+a", []string{in, oin, in}, &c.ConcatAOA}} {
				os.Remove(out)
				_, se, err := x.run(nil, append([]string{"concat", "-o", out}, k.ins...)...)
				x.rep.eval(canon(c.A)+"concat"+k.name, true)
				if err != nil {
					x.viol("concat/error", k.name+": "+strings.TrimSpace(string(se)), nil)
					continue
				}
				got, _ := os.ReadFile(out)
				if want := k.want.build(); !bytes.Equal(got, want) {
					x.viol("concat/content", fmt.Sprintf("concat %s is not roots %v sections %v", k.name, k.want.Roots, k.want.Secs), nil)
				} else {
					x.closure("concat", out, archInspectable(k.want), archVerifiable(k.want))
				}
			}
			os.Remove(oin)
		}
		// --version 2
		out2 := filepath.Join(x.dir, "concat2.car")
		os.Remove(out2)
		if len(c.A.Roots) > 0 && c.A.Ver == 2 {
			if _, _, err := x.run(nil, "concat", "--version", "2", "-o", out2, in, in); err == nil {
				if _, _, err := x.run(nil, "inspect", "--full", out2); err != nil && c.Inspectable {
					x.viol("concat-v2/not-a-car", "`car concat --version 2` emits a file that `car inspect --full` rejects (no pragma, first input's data size)", nil)
				}
			}
		}
	}
	// get-dag of a raw root
	for _, ver := range []int{1, 2} {
		has := false
		for _, s := range c.A.Secs {
			if s == "b1" {
				has = true
			}
		}
		if !has {
			continue
		}
		out := filepath.Join(x.dir, "dag.car")
		os.Remove(out)
		_, se, err := x.run(nil, "get-dag", "--version", fmt.Sprint(ver), in, alphaByID["b1"].Cid.String(), out)
		x.rep.eval(canon(c.A)+fmt.Sprintf("get-dag/%d", ver), true)
		if err != nil {
			x.viol("get-dag/error", strings.TrimSpace(string(se)), nil)
			continue
		}
		got, _ := os.ReadFile(out)
		want := Arch{Roots: []string{"b1"}, Secs: []string{"b1"}, Ver: ver, Idx: "mh"}
		if ver == 1 {
			want.Idx = "none"
		}
		if !bytes.Equal(got, want.build()) {
			x.viol("get-dag/content", fmt.Sprintf("get-dag --version %d of a raw leaf is not the archive {root b1, block b1} (%d bytes vs %d)", ver, len(got), len(want.build())), nil)
			continue
		}
		x.closure("get-dag", out, true, true)
	}
}

var cliOnlyFilter bool

// cliBigIndex: `car index` over the archive of 70 000 sections (far more records than any batch the tool may use):
// the payload is unchanged, the index is the regenerated one, `car verify` and `car inspect --full` accept the output.
func cliBigIndex(carBin string) (string, string) {
	file, secs := bigArchive()
	dir, err := os.MkdirTemp("", "vh-clibig-")
	if err != nil {
		return "", ""
	}
	defer os.RemoveAll(dir)
	in, out := filepath.Join(dir, "big.car"), filepath.Join(dir, "big-indexed.car")
	if err := os.WriteFile(in, file, 0o644); err != nil {
		return "", ""
	}
	if o, err := exec.Command(carBin, "index", in, out).CombinedOutput(); err != nil {
		return "index/large/failed", fmt.Sprintf("car index on %d sections: %v %s", len(secs), err, strings.TrimSpace(string(o)))
	}
	got, _ := os.ReadFile(out)
	h, err := refParseV2(got)
	if err != nil {
		return "index/large/malformed", err.Error()
	}
	if !bytes.Equal(h.Payload, file) {
		return "index/large/payload", "car index changed the payload"
	}
	if h.Index == nil {
		return "index/large/no-index", "no index in the output"
	}
	idx, err := index.ReadFrom(bytes.NewReader(h.Index))
	if err != nil {
		return "index/large/malformed", "index: " + err.Error()
	}
	if m := checkBigIndex(idx, secs); m != "" {
		return "index/large/incomplete", m
	}
	for _, sub := range [][]string{{"verify", out}, {"inspect", "--full", out}} {
		if o, err := exec.Command(carBin, sub...).CombinedOutput(); err != nil {
			return "closure/" + sub[0] + "-rejects/index-large", fmt.Sprintf("car %s rejects the output of car index on %d sections: %s", sub[0], len(secs), strings.TrimSpace(string(o)))
		}
	}
	return "", ""
}

func runCliReplay(args []string) int {
	in, out, carBin := args[0], args[1], args[2]
	permille := uint64(1000)
	seed := uint64(1)
	for _, a := range args[3:] {
		if strings.HasPrefix(a, "permille=") {
			fmt.Sscan(a[9:], &permille)
		}
		if strings.HasPrefix(a, "seed=") {
			fmt.Sscan(a[5:], &seed)
		}
		if a == "only=filter" {
			cliOnlyFilter = true
		}
		if a == "only=big" { // just the large-archive case (used for the CLI linked against the released library)
			rep := newReport("cli")
			if cls, msg := cliBigIndex(carBin); cls != "" {
				rep.violate("cli/"+cls, msg, map[string]any{"family": "cli-big", "sections": bigSections})
			}
			rep.eval("cli-big-index", true)
			rep.write(out)
			if len(rep.ViolClasses) > 0 {
				return 1
			}
			return 0
		}
	}
	rep := newReport("cli")
	if !cliOnlyFilter {
		if cls, msg := cliBigIndex(carBin); cls != "" {
			rep.violate("cli/"+cls, msg, map[string]any{"family": "cli-big", "sections": bigSections})
		}
		rep.eval("cli-big-index", true)
	}
	jobs := make(chan []byte, 64)
	var wg sync.WaitGroup
	base := "/dev/shm"
	if _, err := os.Stat(base); err != nil {
		base = os.TempDir()
	}
	sample := func(k string) bool {
		h := fnv.New64a()
		h.Write([]byte(k))
		return (h.Sum64()+seed*104729)%1000 < permille
	}
	for w := 0; w < runtime.NumCPU(); w++ {
		wg.Add(1)
		go func() {
			defer wg.Done()
			dir, _ := os.MkdirTemp(base, "vh-cli-")
			defer os.RemoveAll(dir)
			for raw := range jobs {
				var c cliCase
				if err := json.Unmarshal(raw, &c); err != nil {
					rep.inconclusive("bad record: " + err.Error())
					continue
				}
				x := &cliCtx{car: carBin, dir: dir, c: &c, rep: rep}
				func() {
					defer func() {
						if r := recover(); r != nil {
							x.viol("harness-panic", fmt.Sprint(r), nil)
						}
					}()
					runCliCase(x, sample)
				}()
				rep.count("archives", 1)
				if len(c.A.Secs) >= 2 {
					rep.sample(map[string]any{"archive": c.A}, 6)
				}
			}
		}()
	}
	err := readTLCRecords(in, func(raw []byte) error { jobs <- append([]byte{}, raw...); return nil })
	close(jobs)
	wg.Wait()
	if err != nil {
		rep.inconclusive(err.Error())
	}
	rep.write(out)
	if len(rep.ViolClasses) > 0 {
		return 1
	}
	if len(rep.Inconcl) > 0 {
		return 2
	}
	return 0
}
