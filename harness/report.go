package main

import (
	"encoding/json"
	"fmt"
	"os"
	"sort"
	"sync"
)

// Violation is one real execution rejected by a P-layer relation.
type Violation struct {
	Class  string `json:"class"`  // stable classification token (used by KNOWN_FINDINGS.txt)
	Detail string `json:"detail"` // human readable
	Replay any    `json:"replay"` // enough to re-execute the case
}

// Report is what every harness sub-command writes for bin/check.
type Report struct {
	mu          sync.Mutex
	Family      string         `json:"family"`
	Evaluations int            `json:"evaluations"`
	Distinct    int            `json:"distinct_nontrivial"`
	Counters    map[string]int `json:"counters"`
	Samples     []any          `json:"samples"`
	Violations  []Violation    `json:"violations"`
	ViolClasses map[string]int `json:"violation_classes"`
	Drift       []string       `json:"model_drift"`
	Inconcl     []string       `json:"inconclusive"`
	distinct    map[string]struct{}
}

func newReport(fam string) *Report {
	return &Report{Family: fam, Counters: map[string]int{}, ViolClasses: map[string]int{}, distinct: map[string]struct{}{}}
}

func (r *Report) count(k string, n int) {
	r.mu.Lock()
	r.Counters[k] += n
	r.mu.Unlock()
}

func (r *Report) eval(distinctKey string, nontrivial bool) {
	r.mu.Lock()
	r.Evaluations++
	if nontrivial {
		if _, ok := r.distinct[distinctKey]; !ok {
			r.distinct[distinctKey] = struct{}{}
		}
	}
	r.mu.Unlock()
}

func (r *Report) sample(s any, max int) {
	r.mu.Lock()
	if len(r.Samples) < max {
		r.Samples = append(r.Samples, s)
	}
	r.mu.Unlock()
}

func (r *Report) violate(class, detail string, replay any) {
	r.mu.Lock()
	r.ViolClasses[class]++
	// keep at most 3 full records per class
	if r.ViolClasses[class] <= 3 {
		r.Violations = append(r.Violations, Violation{class, detail, replay})
	}
	r.mu.Unlock()
}

func (r *Report) drift(s string) {
	r.mu.Lock()
	if len(r.Drift) < 50 {
		r.Drift = append(r.Drift, s)
	}
	r.mu.Unlock()
}

func (r *Report) inconclusive(s string) {
	r.mu.Lock()
	if len(r.Inconcl) < 50 {
		r.Inconcl = append(r.Inconcl, s)
	}
	r.mu.Unlock()
}

func (r *Report) write(path string) {
	r.mu.Lock()
	defer r.mu.Unlock()
	r.Distinct = len(r.distinct)
	sort.Slice(r.Violations, func(i, j int) bool { return r.Violations[i].Class < r.Violations[j].Class })
	b, err := json.MarshalIndent(r, "", " ")
	if err != nil {
		fmt.Fprintln(os.Stderr, "report:", err)
		os.Exit(2)
	}
	if err := os.WriteFile(path, b, 0o644); err != nil {
		fmt.Fprintln(os.Stderr, "report:", err)
		os.Exit(2)
	}
}

func canon(v any) string {
	b, err := json.Marshal(v)
	if err != nil {
		panic(err)
	}
	// round-trip through a generic value so that object keys are sorted
	var g any
	if err := json.Unmarshal(b, &g); err != nil {
		panic(err)
	}
	b, _ = json.Marshal(g)
	return string(b)
}

func inList(l []string, s string) bool {
	for _, x := range l {
		if x == s {
			return true
		}
	}
	return false
}
