package main

// Independent reference codec for CARv1 / CARv2 / index formats, written from the format
// specifications. It calls nothing in go-car. It is used to build inputs and to project
// the implementation's outputs back into the vocabulary of the TLA+ specifications.
// Trusted: go-cid's CID parser (cid.CidFromBytes), this file.

import (
	"bytes"
	"encoding/binary"
	"errors"
	"fmt"
	"sort"

	"github.com/ipfs/go-cid"
	mh "github.com/multiformats/go-multihash"
)

var refPragma = []byte{0x0a, 0xa1, 0x67, 'v', 'e', 'r', 's', 'i', 'o', 'n', 0x02}

const (
	codecIndexSorted   = 0x0400
	codecMhIndexSorted = 0x0401
)

func putUvarint(x uint64) []byte {
	var out []byte
	for x >= 0x80 {
		out = append(out, byte(x)|0x80)
		x >>= 7
	}
	return append(out, byte(x))
}

// getUvarint returns value, bytes consumed; n == 0 means truncated, n < 0 overflow.
func getUvarint(b []byte) (uint64, int) {
	var x uint64
	var s uint
	for i, c := range b {
		if i == 10 {
			return 0, -1
		}
		if c < 0x80 {
			return x | uint64(c)<<s, i + 1
		}
		x |= uint64(c&0x7f) << s
		s += 7
	}
	return 0, 0
}

func cborHead(major byte, n uint64) []byte {
	m := major << 5
	switch {
	case n < 24:
		return []byte{m | byte(n)}
	case n < 1<<8:
		return []byte{m | 24, byte(n)}
	case n < 1<<16:
		return []byte{m | 25, byte(n >> 8), byte(n)}
	case n < 1<<32:
		return []byte{m | 26, byte(n >> 24), byte(n >> 16), byte(n >> 8), byte(n)}
	}
	out := []byte{m | 27, 0, 0, 0, 0, 0, 0, 0, 0}
	binary.BigEndian.PutUint64(out[1:], n)
	return out
}

// refHeaderBody: dag-cbor {"roots": [CID...], "version": 1}
func refHeaderBody(roots []cid.Cid, version uint64) []byte {
	var b bytes.Buffer
	b.Write(cborHead(5, 2))
	b.Write(cborHead(3, 5))
	b.WriteString("roots")
	b.Write(cborHead(4, uint64(len(roots))))
	for _, r := range roots {
		b.Write([]byte{0xd8, 0x2a})
		rb := r.Bytes()
		b.Write(cborHead(2, uint64(len(rb)+1)))
		b.WriteByte(0)
		b.Write(rb)
	}
	b.Write(cborHead(3, 7))
	b.WriteString("version")
	b.Write(cborHead(0, version))
	return b.Bytes()
}

func refHeader(roots []cid.Cid) []byte {
	body := refHeaderBody(roots, 1)
	return append(putUvarint(uint64(len(body))), body...)
}

func refSection(c cid.Cid, data []byte) []byte {
	cb := c.Bytes()
	out := putUvarint(uint64(len(cb) + len(data)))
	out = append(out, cb...)
	return append(out, data...)
}

type RefSec struct {
	Cid     cid.Cid
	Off     int // offset of the length varint in the payload
	DataOff int // offset of the data bytes in the payload
	Data    []byte
}

type RefV1 struct {
	Roots     []cid.Cid
	Version   uint64
	HeaderLen int
	Secs      []RefSec
	End       int // offset where the scan stopped
}

func refBuildV1(roots []cid.Cid, blocks []*ABlock) []byte {
	out := refHeader(roots)
	for _, b := range blocks {
		out = append(out, refSection(b.Cid, b.Data)...)
	}
	return out
}

type cborR struct {
	b []byte
	p int
}

func (r *cborR) head() (major byte, n uint64, err error) {
	if r.p >= len(r.b) {
		return 0, 0, errors.New("cbor: truncated")
	}
	c := r.b[r.p]
	r.p++
	major = c >> 5
	ai := c & 31
	switch {
	case ai < 24:
		return major, uint64(ai), nil
	case ai == 24 || ai == 25 || ai == 26 || ai == 27:
		w := 1 << (ai - 24)
		if r.p+w > len(r.b) {
			return 0, 0, errors.New("cbor: truncated")
		}
		for i := 0; i < w; i++ {
			n = n<<8 | uint64(r.b[r.p+i])
		}
		r.p += w
		return major, n, nil
	}
	return 0, 0, errors.New("cbor: unsupported additional info")
}

func (r *cborR) take(n uint64) ([]byte, error) {
	if uint64(len(r.b)-r.p) < n {
		return nil, errors.New("cbor: truncated")
	}
	out := r.b[r.p : r.p+int(n)]
	r.p += int(n)
	return out, nil
}

// refParseHeaderBody decodes {"roots":[...],"version":n} (either key order).
func refParseHeaderBody(body []byte) (roots []cid.Cid, version uint64, hasRoots bool, err error) {
	r := &cborR{b: body}
	maj, n, err := r.head()
	if err != nil {
		return nil, 0, false, err
	}
	if maj != 5 {
		return nil, 0, false, errors.New("header: not a map")
	}
	for i := uint64(0); i < n; i++ {
		m, l, err := r.head()
		if err != nil {
			return nil, 0, false, err
		}
		if m != 3 {
			return nil, 0, false, errors.New("header: key not text")
		}
		k, err := r.take(l)
		if err != nil {
			return nil, 0, false, err
		}
		switch string(k) {
		case "version":
			m, v, err := r.head()
			if err != nil {
				return nil, 0, false, err
			}
			if m != 0 {
				return nil, 0, false, errors.New("header: version not uint")
			}
			version = v
		case "roots":
			m, cnt, err := r.head()
			if err != nil {
				return nil, 0, false, err
			}
			if m != 4 {
				return nil, 0, false, errors.New("header: roots not array")
			}
			hasRoots = true
			for j := uint64(0); j < cnt; j++ {
				m, t, err := r.head()
				if err != nil {
					return nil, 0, false, err
				}
				if m != 6 || t != 42 {
					return nil, 0, false, errors.New("header: root not tag 42")
				}
				m, bl, err := r.head()
				if err != nil {
					return nil, 0, false, err
				}
				if m != 2 {
					return nil, 0, false, errors.New("header: root not bytes")
				}
				cb, err := r.take(bl)
				if err != nil {
					return nil, 0, false, err
				}
				if len(cb) < 1 || cb[0] != 0 {
					return nil, 0, false, errors.New("header: root without identity multibase prefix")
				}
				_, c, err := cid.CidFromBytes(cb[1:])
				if err != nil {
					return nil, 0, false, err
				}
				roots = append(roots, c)
			}
		default:
			return nil, 0, false, fmt.Errorf("header: unknown key %q", k)
		}
	}
	if r.p != len(body) {
		return nil, 0, false, errors.New("header: trailing bytes")
	}
	return roots, version, hasRoots, nil
}

// refParseV1 scans a CARv1 payload strictly. zeroEOF: stop at a zero-length section.
func refParseV1(p []byte, zeroEOF bool) (*RefV1, error) {
	hl, n := getUvarint(p)
	if n <= 0 {
		return nil, errors.New("v1: bad header length")
	}
	if uint64(len(p)-n) < hl {
		return nil, errors.New("v1: truncated header")
	}
	roots, ver, _, err := refParseHeaderBody(p[n : n+int(hl)])
	if err != nil {
		return nil, err
	}
	out := &RefV1{Roots: roots, Version: ver, HeaderLen: n + int(hl)}
	off := out.HeaderLen
	for off < len(p) {
		sl, n := getUvarint(p[off:])
		if n <= 0 {
			out.End = off
			return out, errors.New("v1: bad section length")
		}
		if sl == 0 && zeroEOF {
			break
		}
		if uint64(len(p)-off-n) < sl {
			out.End = off
			return out, errors.New("v1: truncated section")
		}
		body := p[off+n : off+n+int(sl)]
		cl, c, err := cid.CidFromBytes(body)
		if err != nil {
			out.End = off
			return out, fmt.Errorf("v1: bad cid: %w", err)
		}
		out.Secs = append(out.Secs, RefSec{Cid: c, Off: off, DataOff: off + n + cl, Data: body[cl:]})
		off += n + int(sl)
	}
	out.End = off
	return out, nil
}

type RefV2 struct {
	CharHi, CharLo                    uint64
	DataOffset, DataSize, IndexOffset uint64
	Payload                           []byte
	Index                             []byte // bytes from IndexOffset to EOF (nil if IndexOffset == 0)
}

func (h *RefV2) FullyIndexed() bool { return h.CharHi&(1<<7) != 0 }

func refV2Header(fully bool, dataOff, dataSize, idxOff uint64) []byte {
	out := make([]byte, 40)
	if fully {
		binary.LittleEndian.PutUint64(out[0:], 1<<7)
	}
	binary.LittleEndian.PutUint64(out[16:], dataOff)
	binary.LittleEndian.PutUint64(out[24:], dataSize)
	binary.LittleEndian.PutUint64(out[32:], idxOff)
	return out
}

// refBuildV2 assembles pragma | header | dataPad zeros | payload | idxPad zeros | index.
// index == nil means "no index" (IndexOffset 0).
func refBuildV2(payload []byte, dataPad, idxPad int, index []byte, fully bool) []byte {
	dataOff := uint64(51 + dataPad)
	idxOff := uint64(0)
	if index != nil {
		idxOff = dataOff + uint64(len(payload)) + uint64(idxPad)
	}
	out := append([]byte{}, refPragma...)
	out = append(out, refV2Header(fully, dataOff, uint64(len(payload)), idxOff)...)
	out = append(out, make([]byte, dataPad)...)
	out = append(out, payload...)
	if index != nil {
		out = append(out, make([]byte, idxPad)...)
		out = append(out, index...)
	}
	return out
}

func refParseV2(f []byte) (*RefV2, error) {
	if len(f) < 51 {
		return nil, errors.New("v2: shorter than pragma+header")
	}
	if !bytes.Equal(f[:11], refPragma) {
		return nil, errors.New("v2: bad pragma")
	}
	h := &RefV2{
		CharHi:      binary.LittleEndian.Uint64(f[11:]),
		CharLo:      binary.LittleEndian.Uint64(f[19:]),
		DataOffset:  binary.LittleEndian.Uint64(f[27:]),
		DataSize:    binary.LittleEndian.Uint64(f[35:]),
		IndexOffset: binary.LittleEndian.Uint64(f[43:]),
	}
	if h.DataOffset < 51 || h.DataOffset+h.DataSize > uint64(len(f)) || h.DataOffset+h.DataSize < h.DataOffset {
		return h, fmt.Errorf("v2: payload window [%d,+%d) outside file of %d bytes", h.DataOffset, h.DataSize, len(f))
	}
	h.Payload = f[h.DataOffset : h.DataOffset+h.DataSize]
	if h.IndexOffset != 0 {
		if h.IndexOffset < h.DataOffset+h.DataSize || h.IndexOffset > uint64(len(f)) {
			return h, fmt.Errorf("v2: index offset %d outside [%d,%d]", h.IndexOffset, h.DataOffset+h.DataSize, len(f))
		}
		h.Index = f[h.IndexOffset:]
	}
	return h, nil
}

// ---- index formats -------------------------------------------------------------------

type RefRec struct {
	HCode  int64 // -1 for the digest-only codec
	Digest []byte
	Offset uint64
}

type RefIndex struct {
	Codec uint64
	Recs  []RefRec // in file order
	// canonical-order facts observed while decoding
	CodesAscending   bool
	WidthsAscending  bool
	DigestsAscending bool
	Consumed         int
}

func refDecodeWidthBuckets(b []byte, hcode int64, ix *RefIndex) (int, error) {
	p := 0
	if len(b) < 4 {
		return 0, errors.New("index: truncated bucket count")
	}
	cnt := int32(binary.LittleEndian.Uint32(b))
	p += 4
	if cnt < 0 {
		return 0, errors.New("index: negative bucket count")
	}
	lastW := uint32(0)
	for i := int32(0); i < cnt; i++ {
		if len(b)-p < 12 {
			return 0, errors.New("index: truncated bucket header")
		}
		w := binary.LittleEndian.Uint32(b[p:])
		l := binary.LittleEndian.Uint64(b[p+4:])
		p += 12
		if w < 8 {
			return 0, errors.New("index: width < 8")
		}
		if i > 0 && w <= lastW {
			ix.WidthsAscending = false
		}
		lastW = w
		if uint64(len(b)-p) < l || l%uint64(w) != 0 {
			return 0, errors.New("index: bad bucket length")
		}
		var last []byte
		for q := uint64(0); q < l; q += uint64(w) {
			rec := b[p+int(q) : p+int(q)+int(w)]
			d := rec[:w-8]
			if last != nil && bytes.Compare(last, d) > 0 {
				ix.DigestsAscending = false
			}
			last = d
			ix.Recs = append(ix.Recs, RefRec{HCode: hcode, Digest: append([]byte{}, d...), Offset: binary.LittleEndian.Uint64(rec[w-8:])})
		}
		p += int(l)
	}
	return p, nil
}

func refDecodeIndex(b []byte) (*RefIndex, error) {
	codec, n := getUvarint(b)
	if n <= 0 {
		return nil, errors.New("index: bad codec varint")
	}
	ix := &RefIndex{Codec: codec, CodesAscending: true, WidthsAscending: true, DigestsAscending: true}
	p := n
	switch codec {
	case codecIndexSorted:
		m, err := refDecodeWidthBuckets(b[p:], -1, ix)
		if err != nil {
			return nil, err
		}
		p += m
	case codecMhIndexSorted:
		if len(b)-p < 4 {
			return nil, errors.New("index: truncated code count")
		}
		cnt := int32(binary.LittleEndian.Uint32(b[p:]))
		p += 4
		last := uint64(0)
		for i := int32(0); i < cnt; i++ {
			if len(b)-p < 8 {
				return nil, errors.New("index: truncated code")
			}
			code := binary.LittleEndian.Uint64(b[p:])
			p += 8
			if i > 0 && code <= last {
				ix.CodesAscending = false
			}
			last = code
			m, err := refDecodeWidthBuckets(b[p:], int64(code), ix)
			if err != nil {
				return nil, err
			}
			p += m
		}
	default:
		return nil, fmt.Errorf("index: unknown codec %#x", codec)
	}
	ix.Consumed = p
	return ix, nil
}

// refEncodeIndex produces the canonical serialization of a record multiset. Records with
// equal digest keep the given relative order (the format leaves it open).
func refEncodeIndex(codec uint64, recs []RefRec) []byte {
	out := putUvarint(codec)
	encWidths := func(rs []RefRec) []byte {
		byW := map[int][]RefRec{}
		for _, r := range rs {
			byW[len(r.Digest)] = append(byW[len(r.Digest)], r)
		}
		ws := []int{}
		for w := range byW {
			ws = append(ws, w)
		}
		sort.Ints(ws)
		o := make([]byte, 4)
		binary.LittleEndian.PutUint32(o, uint32(len(ws)))
		for _, w := range ws {
			l := byW[w]
			sort.SliceStable(l, func(i, j int) bool { return bytes.Compare(l[i].Digest, l[j].Digest) < 0 })
			hdr := make([]byte, 12)
			binary.LittleEndian.PutUint32(hdr, uint32(w+8))
			binary.LittleEndian.PutUint64(hdr[4:], uint64((w+8)*len(l)))
			o = append(o, hdr...)
			for _, r := range l {
				o = append(o, r.Digest...)
				ob := make([]byte, 8)
				binary.LittleEndian.PutUint64(ob, r.Offset)
				o = append(o, ob...)
			}
		}
		return o
	}
	if codec == codecIndexSorted {
		return append(out, encWidths(recs)...)
	}
	byC := map[int64][]RefRec{}
	for _, r := range recs {
		byC[r.HCode] = append(byC[r.HCode], r)
	}
	cs := []int64{}
	for c := range byC {
		cs = append(cs, c)
	}
	sort.Slice(cs, func(i, j int) bool { return uint64(cs[i]) < uint64(cs[j]) })
	cnt := make([]byte, 4)
	binary.LittleEndian.PutUint32(cnt, uint32(len(cs)))
	out = append(out, cnt...)
	for _, c := range cs {
		cb := make([]byte, 8)
		binary.LittleEndian.PutUint64(cb, uint64(c))
		out = append(out, cb...)
		out = append(out, encWidths(byC[c])...)
	}
	return out
}

func refRecOf(c cid.Cid, off uint64, codec uint64) RefRec {
	dm, err := mh.Decode(c.Hash())
	if err != nil {
		panic(err)
	}
	r := RefRec{HCode: int64(dm.Code), Digest: dm.Digest, Offset: off}
	if codec == codecIndexSorted {
		r.HCode = -1
	}
	return r
}

// recKey renders a record for multiset comparison.
func (r RefRec) key() string { return fmt.Sprintf("%d/%x@%d", r.HCode, r.Digest, r.Offset) }

func recMultiset(rs []RefRec) map[string]int {
	m := map[string]int{}
	for _, r := range rs {
		m[r.key()]++
	}
	return m
}
