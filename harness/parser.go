package main

// C09: parsers are total and resource-bounded.
//   parser-limits : the exact-limit matrix from Parser.tla on every entry point that buffers a
//                   header or a section (limit-1 / limit / limit+1), plus "a huge declared length
//                   is refused before allocating".
//   parser-fuzz   : structure-aware mutations and raw random bytes through every parsing entry
//                   point in child processes (panic / hang / allocation are process-level facts).

import (
	"bytes"
	"encoding/binary"
	"encoding/json"
	"errors"
	"fmt"
	"io"
	"os"
	"os/exec"
	"path/filepath"
	"runtime"
	"strings"
	"sync"
	"time"

	"github.com/ipfs/go-cid"
	carv1root "github.com/ipld/go-car"
	carv2 "github.com/ipld/go-car/v2"
	"github.com/ipld/go-car/v2/blockstore"
	"github.com/ipld/go-car/v2/index"
	"github.com/ipld/go-car/v2/storage"
	"github.com/ipld/go-car/v2/verifexport"
	"github.com/multiformats/go-multihash"
)

type epFunc func(file []byte, dir string, opts []carv2.Option) error

// drain helpers
func drainBR(r io.Reader, skip bool, opts []carv2.Option) error {
	br, err := carv2.NewBlockReader(r, opts...)
	if err != nil {
		return err
	}
	for i := 0; i < 1<<20; i++ {
		if skip {
			_, err = br.SkipNext()
		} else {
			_, err = br.Next()
		}
		if err == io.EOF {
			return nil
		}
		if err != nil {
			return err
		}
	}
	return errors.New("harness: more than 2^20 blocks")
}

var entryPoints = []struct {
	name string
	hdr  bool // reads (buffers) the CARv1 header under MaxAllowedHeaderSize
	sec  bool // buffers sections under MaxAllowedSectionSize
	fn   epFunc
}{
	{"BlockReader.Next", true, true, func(f []byte, _ string, o []carv2.Option) error { return drainBR(bytes.NewReader(f), false, o) }},
	{"BlockReader.Next(plain)", true, true, func(f []byte, _ string, o []carv2.Option) error {
		return drainBR(&plainReader{bytes.NewReader(f)}, false, o)
	}},
	{"BlockReader.SkipNext", true, true, func(f []byte, _ string, o []carv2.Option) error { return drainBR(bytes.NewReader(f), true, o) }},
	{"BlockReader.SkipNext(plain)", true, true, func(f []byte, _ string, o []carv2.Option) error {
		return drainBR(&plainReader{bytes.NewReader(f)}, true, o)
	}},
	{"Reader.Roots", true, false, func(f []byte, _ string, o []carv2.Option) error {
		r, err := carv2.NewReader(bytes.NewReader(f), o...)
		if err != nil {
			return err
		}
		_, err = r.Roots()
		return err
	}},
	{"Reader.Inspect(true)", true, true, func(f []byte, _ string, o []carv2.Option) error {
		r, err := carv2.NewReader(bytes.NewReader(f), o...)
		if err != nil {
			return err
		}
		_, err = r.Inspect(true)
		return err
	}},
	{"Reader.Inspect(false)", true, true, func(f []byte, _ string, o []carv2.Option) error {
		r, err := carv2.NewReader(bytes.NewReader(f), o...)
		if err != nil {
			return err
		}
		_, err = r.Inspect(false)
		return err
	}},
	{"Reader.Data+IndexReader", false, false, func(f []byte, _ string, o []carv2.Option) error {
		r, err := carv2.NewReader(bytes.NewReader(f), o...)
		if err != nil {
			return err
		}
		if dr, err := r.DataReader(); err == nil {
			io.CopyN(io.Discard, dr, 1<<20)
		}
		if ir, err := r.IndexReader(); err == nil && ir != nil {
			io.CopyN(io.Discard, ir, 1<<20)
		}
		return nil
	}},
	{"GenerateIndex", true, false, func(f []byte, _ string, o []carv2.Option) error {
		_, err := carv2.GenerateIndex(bytes.NewReader(f), o...)
		return err
	}},
	{"LoadIndex(plain)", true, false, func(f []byte, _ string, o []carv2.Option) error {
		return carv2.LoadIndex(index.NewInsertionIndex(), &plainReader{bytes.NewReader(f)}, o...)
	}},
	{"ReadOrGenerateIndex", true, false, func(f []byte, _ string, o []carv2.Option) error {
		_, err := carv2.ReadOrGenerateIndex(bytes.NewReader(f), o...)
		return err
	}},
	{"index.ReadFrom+queries", false, false, func(f []byte, _ string, o []carv2.Option) error {
		idx, err := index.ReadFrom(bytes.NewReader(f))
		if err != nil {
			return err
		}
		return exerciseIndex(idx)
	}},
	{"ReadOrGenerateIndex+queries", false, false, func(f []byte, _ string, o []carv2.Option) error {
		idx, err := carv2.ReadOrGenerateIndex(bytes.NewReader(f), o...)
		if err != nil {
			return err
		}
		return exerciseIndex(idx)
	}},
	{"blockstore.NewReadOnly+queries", true, true, func(f []byte, _ string, o []carv2.Option) error {
		bs, err := blockstore.NewReadOnly(bytes.NewReader(f), nil, o...)
		if err != nil {
			return err
		}
		var first error
		for _, b := range alphabet {
			if _, err := bs.Get(bg, b.Cid); err != nil && !isNotFound(err) && first == nil {
				first = err
			}
			bs.Has(bg, b.Cid)
			bs.GetSize(bg, b.Cid)
		}
		ctx, cancel := ctxWithTimeout(2 * time.Second)
		defer cancel()
		if ch, err := bs.AllKeysChan(ctx); err == nil {
			for range ch {
			}
		}
		bs.Roots()
		return first
	}},
	{"storage.OpenReadable+queries", true, false, func(f []byte, _ string, o []carv2.Option) error {
		s, err := storage.OpenReadable(bytes.NewReader(f), o...)
		if err != nil {
			return err
		}
		for _, b := range alphabet[:6] {
			s.Has(bg, b.Cid.KeyString())
			s.Get(bg, b.Cid.KeyString())
		}
		return nil
	}},
	{"ReplaceRootsInFile", true, false, func(f []byte, dir string, o []carv2.Option) error {
		p := filepath.Join(dir, "rr.car")
		os.WriteFile(p, f, 0o644)
		defer os.Remove(p)
		return carv2.ReplaceRootsInFile(p, []cid.Cid{alphaByID["b4"].Cid}, o...)
	}},
	{"ExtractV1File", false, false, func(f []byte, dir string, o []carv2.Option) error {
		p, q := filepath.Join(dir, "ex.car"), filepath.Join(dir, "ex.out")
		os.WriteFile(p, f, 0o644)
		defer os.Remove(p)
		defer os.Remove(q)
		return carv2.ExtractV1File(p, q, o...)
	}},
	{"root.CarReader", false, false, func(f []byte, _ string, _ []carv2.Option) error {
		cr, err := carv1root.NewCarReaderWithOptions(bytes.NewReader(f), carv1root.WithErrorOnEmptyRoots(false))
		if err != nil {
			return err
		}
		for i := 0; i < 1<<20; i++ {
			if _, err := cr.Next(); err == io.EOF {
				return nil
			} else if err != nil {
				return err
			}
		}
		return nil
	}},
	{"root.LoadCar", false, false, func(f []byte, _ string, _ []carv2.Option) error {
		_, err := carv1root.LoadCar(bg, &orderStore{}, bytes.NewReader(f))
		return err
	}},
	{"internal.CarReader", false, false, func(f []byte, _ string, _ []carv2.Option) error {
		vr, _, err := verifexport.NewV1Reader(bytes.NewReader(f), false, carv2.DefaultMaxAllowedHeaderSize, carv2.DefaultMaxAllowedSectionSize)
		if err != nil {
			return err
		}
		for i := 0; i < 1<<20; i++ {
			if _, err := vr.Next(); err == io.EOF {
				return nil
			} else if err != nil {
				return err
			}
		}
		return nil
	}},
}

// exerciseIndex runs every read-side operation of a loaded index: a corrupt index that was
// accepted must still answer (or refuse) without panicking or over-allocating.
func exerciseIndex(idx index.Index) error {
	for _, b := range alphabet {
		index.GetFirst(idx, b.Cid)
		idx.GetAll(b.Cid, func(uint64) bool { return true })
	}
	if it, ok := idx.(index.IterableIndex); ok {
		n := 0
		it.ForEach(func(multihash.Multihash, uint64) error {
			if n++; n > 1<<22 {
				return errors.New("harness: more than 2^22 records")
			}
			return nil
		})
	}
	var sink bytes.Buffer
	_, err := index.WriteTo(idx, &sink)
	return err
}

// cidLenOffsets finds, in a valid base file, the offset of the digest-length byte of every
// occurrence of an alphabet CID (all alphabet digest lengths are single-byte varints except b19's).
func cidLenOffsets(base []byte) []int {
	var out []int
	seen := map[int]bool{}
	for _, b := range alphabet {
		cb := b.Cid.Bytes()
		pre := 1 // CIDv0: 0x12 <len>
		if b.Cid.Version() == 1 {
			pre = 0
			for k := 0; k < 3; k++ { // version, codec, hash code
				_, n := binary.Uvarint(cb[pre:])
				pre += n
			}
		}
		for from := 0; ; {
			i := bytes.Index(base[from:], cb)
			if i < 0 {
				break
			}
			if p := from + i + pre; !seen[p] {
				seen[p] = true
				out = append(out, p)
			}
			from += i + 1
		}
	}
	return out
}

// ---- exact-limit matrix --------------------------------------------------------------------

func runParserLimits(args []string) int {
	in, out := args[0], args[1]
	rep := newReport("parser-limits")
	type row struct {
		Kind   string `json:"kind"`
		Delta  int    `json:"delta"`
		Expect string `json:"expect"`
	}
	var matrix []row
	readTLCRecords(in, func(raw []byte) error {
		var r struct {
			Matrix []row `json:"matrix"`
		}
		if json.Unmarshal(raw, &r) == nil && len(r.Matrix) > 0 && matrix == nil {
			matrix = r.Matrix
		}
		return nil
	})
	if len(matrix) != 6 {
		rep.inconclusive(fmt.Sprintf("limit matrix not found in the TLC output (%d rows)", len(matrix)))
		rep.write(out)
		return 2
	}
	dir, _ := os.MkdirTemp("", "vh-pl-")
	defer os.RemoveAll(dir)
	for _, ver := range []int{1, 2} {
		for _, roots := range [][]string{{"b1"}, {"b1", "b4", "b13"}} {
			for _, sec := range []string{"b13", "b15", "b14"} {
				a := Arch{Roots: roots, Secs: []string{"b1", sec}, Ver: ver, Idx: "mh", Dpad: 3}
				file := a.build()
				hb := len(refHeaderBody(a.rootCids(), 1))
				sb := len(alphaByID[sec].Cid.Bytes()) + len(alphaByID[sec].Data)
				for _, m := range matrix {
					for _, ep := range entryPoints {
						var opts []carv2.Option
						var applies bool
						if m.Kind == "header" {
							opts, applies = []carv2.Option{carv2.MaxAllowedHeaderSize(uint64(hb - m.Delta))}, ep.hdr
						} else {
							opts, applies = []carv2.Option{carv2.MaxAllowedSectionSize(uint64(sb - m.Delta))}, ep.sec
						}
						if !applies {
							continue
						}
						if m.Kind == "header" && ver == 2 && (ep.name == "ReadOrGenerateIndex" || ep.name == "blockstore.NewReadOnly+queries") {
							continue // with an embedded index these never read the inner CARv1 header
						}
						err := ep.fn(file, dir, opts)
						rep.eval(fmt.Sprintf("%s/%d/%v/%s/%s/%d", ep.name, ver, roots, sec, m.Kind, m.Delta), true)
						want := m.Expect
						got := "accept"
						switch {
						case errors.Is(err, verifexport.ErrHeaderTooLarge):
							got = "err-header-too-large"
						case errors.Is(err, verifexport.ErrSectionTooLarge):
							got = "err-section-too-large"
						case err != nil && ep.name == "ReplaceRootsInFile" && strings.Contains(err.Error(), "must match"):
							got = "accept" // the header was read; the refusal is about the replacement size
						case err != nil:
							got = "other-error: " + err.Error()
						}
						if got != want {
							rep.violate("limits/"+m.Kind+"/"+ep.name, fmt.Sprintf("%s on CARv%d (header body %d, section body %d) with the %s limit at declared%+d: %s, specification says %s",
								ep.name, ver, hb, sb, m.Kind, -m.Delta, got, want), map[string]any{"family": "parser-limits", "entry": ep.name, "ver": ver, "kind": m.Kind, "delta": m.Delta, "roots": roots, "sec": sec})
						}
					}
				}
			}
		}
	}
	// a huge declared length must be refused without allocating for it
	for _, kind := range []string{"header", "section"} {
		for _, decl := range []uint64{1 << 26, 1 << 40, 1<<63 - 1} {
			var f []byte
			if kind == "header" {
				f = append(putUvarint(decl), []byte("garbage")...)
			} else {
				f = append(refHeader(idsToCids([]string{"b1"})), putUvarint(decl)...)
				f = append(f, alphaByID["b1"].Cid.Bytes()...)
			}
			for _, ep := range entryPoints {
				if (kind == "header" && !ep.hdr && !strings.HasPrefix(ep.name, "root.") && !strings.HasPrefix(ep.name, "internal.")) || (kind == "section" && !ep.sec && !strings.HasPrefix(ep.name, "root.") && !strings.HasPrefix(ep.name, "internal.")) {
					continue
				}
				runtime.GC()
				var m0, m1 runtime.MemStats
				runtime.ReadMemStats(&m0)
				err := ep.fn(f, dir, nil)
				runtime.ReadMemStats(&m1)
				rep.eval(fmt.Sprintf("huge/%s/%s/%d", kind, ep.name, decl), true)
				grown := m1.TotalAlloc - m0.TotalAlloc
				if err == nil {
					rep.violate("limits/huge-accepted/"+ep.name, fmt.Sprintf("%s accepted a %s announcing %d bytes", ep.name, kind, decl), map[string]any{"family": "parser-limits", "entry": ep.name, "kind": kind, "declared": decl})
				} else if grown > 48<<20 {
					rep.violate("limits/allocated-before-check/"+ep.name, fmt.Sprintf("%s allocated %d MiB for a %s announcing %d bytes before refusing it", ep.name, grown>>20, kind, decl), map[string]any{"family": "parser-limits", "entry": ep.name, "kind": kind, "declared": decl})
				}
			}
		}
	}
	rep.sample(map[string]any{"matrix": matrix, "entry_points": len(entryPoints)}, 1)
	rep.write(out)
	if len(rep.ViolClasses) > 0 {
		return 1
	}
	return 0
}

// ---- fuzz (child processes) ------------------------------------------------------------------

func fuzzBases() [][]byte {
	var out [][]byte
	for _, secs := range [][]string{{"b1", "b4"}, {"b3", "b5", "b10"}, {"b13", "b19"}, {}} {
		for _, c := range []Arch{{Ver: 1}, {Ver: 2, Idx: "mh"}, {Ver: 2, Idx: "sorted", Dpad: 5, Ipad: 3, Full: true}, {Ver: 2, Idx: "none", Dpad: 1}} {
			a := c
			a.Roots, a.Secs = []string{"b1"}, secs
			out = append(out, a.build())
			if ib := a.indexBytes(); ib != nil {
				out = append(out, ib)
			}
		}
	}
	// what the library itself writes for its in-memory insertion index (codec 0x300003), alone and in the place of
	// a CARv2's index: a reader must refuse or accept it, not fall over it
	ins := index.NewInsertionIndex()
	ins.Load([]index.Record{{Cid: alphaByID["b1"].Cid, Offset: 61}, {Cid: alphaByID["b4"].Cid, Offset: 103}})
	var ib bytes.Buffer
	if _, err := index.WriteTo(ins, &ib); err == nil {
		out = append(out, append([]byte{}, ib.Bytes()...))
		a := Arch{Ver: 2, Idx: "mh", Roots: []string{"b1"}, Secs: []string{"b1", "b4"}}
		file := a.build()
		if own := a.indexBytes(); own != nil && bytes.HasSuffix(file, own) {
			out = append(out, append(append([]byte{}, file[:len(file)-len(own)]...), ib.Bytes()...))
		}
	}
	return out
}

var interestingU64 = []uint64{0, 1, 10, 50, 51, 52, 127, 128, 255, 256, 1 << 20, 1<<31 - 1, 1 << 31, 1<<32 - 1, 1 << 32, 1<<63 - 1, 1 << 63, 1<<64 - 1}

func mutate(rng interface {
	Intn(int) int
	Read([]byte) (int, error)
}, base []byte) []byte {
	in := append([]byte{}, base...)
	if len(in) == 0 {
		in = []byte{0}
	}
	for e := 1 + rng.Intn(3); e > 0; e-- {
		switch rng.Intn(10) {
		case 9: // a section that announces fewer bytes than its CID takes: the byte before a real CID becomes a small length
			if offs := cidLenOffsets(in); len(offs) > 0 {
				// cidLenOffsets points at the digest-length byte; the CID starts 3 bytes earlier for the alphabet's
				// CIDv1s (version, codec, hash code) and 1 byte earlier for a CIDv0
				p := offs[rng.Intn(len(offs))]
				for _, back := range []int{4, 2} {
					if q := p - back; q >= 0 && in[q] < 0x80 && in[q] > 0 {
						in[q] = []byte{1, 2, 10, 35}[rng.Intn(4)]
						break
					}
				}
			}
		case 7: // a CID announcing a huge digest: the length byte of a real CID becomes a big varint
			if offs := cidLenOffsets(in); len(offs) > 0 {
				p := offs[rng.Intn(len(offs))]
				v := putUvarint([]uint64{1 << 28, 1<<29 - 1, 1 << 24, 200}[rng.Intn(4)])
				in = append(in[:p], append(v, in[p+1:]...)...)
			}
		case 8: // a little-endian length field grows by r and r bytes are inserted after what it covered
			if len(in) >= 16 {
				var cands []int // positions that read as a length covering bytes that are there
				for p := 0; p+8 <= len(in); p++ {
					if v := binary.LittleEndian.Uint64(in[p:]); v > 0 && v <= uint64(len(in)-p-8) {
						cands = append(cands, p)
					}
				}
				p := rng.Intn(len(in) - 7)
				if len(cands) > 0 && rng.Intn(4) != 0 {
					p = cands[rng.Intn(len(cands))]
				}
				v := binary.LittleEndian.Uint64(in[p:])
				if v < uint64(len(in)) {
					r := 1 + rng.Intn(15)
					binary.LittleEndian.PutUint64(in[p:], v+uint64(r))
					q := min(len(in), p+8+int(v))
					extra := make([]byte, r)
					rng.Read(extra)
					in = append(in[:q], append(extra, in[q:]...)...)
				}
			}
		case 0: // overwrite 8 bytes with an interesting little-endian value (v2 header fields, index lengths, offsets)
			if len(in) >= 8 {
				p := rng.Intn(len(in) - 7)
				if len(in) >= 51 && rng.Intn(2) == 0 {
					p = []int{27, 35, 43, 11, 19}[rng.Intn(5)]
				}
				binary.LittleEndian.PutUint64(in[p:], interestingU64[rng.Intn(len(interestingU64))])
			}
		case 1: // overwrite 4 bytes (index counts / widths)
			if len(in) >= 4 {
				p := rng.Intn(len(in) - 3)
				binary.LittleEndian.PutUint32(in[p:], uint32(interestingU64[rng.Intn(len(interestingU64))]))
			}
		case 2: // splice a varint
			p := rng.Intn(len(in))
			v := putUvarint(interestingU64[rng.Intn(len(interestingU64))])
			if rng.Intn(4) == 0 {
				v = []byte{0xff, 0xff, 0xff, 0xff, 0xff, 0xff, 0xff, 0xff, 0xff, 0xff, 0x01}
			}
			in = append(in[:p], append(v, in[min(len(in), p+1):]...)...)
		case 3:
			in[rng.Intn(len(in))] ^= byte(1 << rng.Intn(8))
		case 4:
			in = in[:rng.Intn(len(in)+1)]
			if len(in) == 0 {
				in = []byte{0x0a}
			}
		case 5:
			p := rng.Intn(len(in))
			in = append(in[:p], append([]byte{byte(rng.Intn(256))}, in[p:]...)...)
		case 6: // duplicate a slice
			p := rng.Intn(len(in))
			q := p + rng.Intn(len(in)-p+1)
			in = append(in[:q], append(append([]byte{}, in[p:q]...), in[q:]...)...)
		}
	}
	return in
}

// child: runs n inputs through all entry points; prints one JSON line per problem; exit 0.
func runParserFuzzChild(args []string) int {
	var seed int64
	n := 1000
	fmt.Sscan(args[0], &seed)
	fmt.Sscan(args[1], &n)
	rng := newRng(seed)
	bases := fuzzBases()
	dir, _ := os.MkdirTemp("", "vh-pf-")
	defer os.RemoveAll(dir)
	optSets := [][]carv2.Option{nil, {carv2.ZeroLengthSectionAsEOF(true)}, {carv2.MaxAllowedHeaderSize(64), carv2.MaxAllowedSectionSize(64)}}
	evals, nontrivial := 0, 0
	for i := 0; i < n; i++ {
		var in []byte
		if rng.Intn(6) == 0 {
			in = make([]byte, rng.Intn(200))
			rng.Read(in)
		} else {
			in = mutate(rng, bases[rng.Intn(len(bases))])
		}
		opts := optSets[rng.Intn(len(optSets))]
		for _, ep := range entryPoints {
			var m0, m1 runtime.MemStats
			runtime.ReadMemStats(&m0)
			done := make(chan error, 1)
			go func() {
				defer func() {
					if r := recover(); r != nil {
						done <- fmt.Errorf("PANIC: %v", r)
					}
				}()
				done <- ep.fn(in, dir, opts)
			}()
			var err error
			select {
			case err = <-done:
			case <-time.After(10 * time.Second):
				b, _ := json.Marshal(map[string]any{"problem": "hang", "entry": ep.name, "input": fmt.Sprintf("%x", in), "seed": seed, "i": i})
				fmt.Println(string(b))
				return 0
			}
			runtime.ReadMemStats(&m1)
			evals++
			if err == nil {
				nontrivial++
			}
			if err != nil && strings.HasPrefix(err.Error(), "PANIC: ") {
				b, _ := json.Marshal(map[string]any{"problem": "panic", "entry": ep.name, "input": fmt.Sprintf("%x", in), "detail": err.Error(), "seed": seed, "i": i})
				fmt.Println(string(b))
			}
			bound := uint64(64<<20) + uint64(64*len(in)) + 2*(32<<20+8<<20)
			if g := m1.TotalAlloc - m0.TotalAlloc; g > bound {
				b, _ := json.Marshal(map[string]any{"problem": "allocation", "entry": ep.name, "input": fmt.Sprintf("%x", in), "detail": fmt.Sprintf("%d MiB allocated for a %d-byte input", g>>20, len(in)), "seed": seed, "i": i})
				fmt.Println(string(b))
			}
		}
	}
	b, _ := json.Marshal(map[string]any{"summary": true, "evals": evals, "accepted": nontrivial})
	fmt.Println(string(b))
	return 0
}

func runParserFuzz(args []string) int {
	out := args[0]
	seed, per, procs := int64(1), 1500, 16
	for _, a := range args[1:] {
		if strings.HasPrefix(a, "seed=") {
			fmt.Sscan(a[5:], &seed)
		}
		if strings.HasPrefix(a, "per=") {
			fmt.Sscan(a[4:], &per)
		}
	}
	rep := newReport("parser-fuzz")
	self, _ := os.Executable()
	var wg sync.WaitGroup
	for p := 0; p < procs; p++ {
		wg.Add(1)
		go func(p int) {
			defer wg.Done()
			cseed := seed*100 + int64(p)
			cmd := exec.Command(self, "parser-fuzz-child", fmt.Sprint(cseed), fmt.Sprint(per))
			var so, se bytes.Buffer
			cmd.Stdout, cmd.Stderr = &so, &se
			err := cmd.Run()
			sawSummary := false
			for _, line := range strings.Split(so.String(), "\n") {
				if line == "" {
					continue
				}
				var m map[string]any
				if json.Unmarshal([]byte(line), &m) != nil {
					continue
				}
				if m["summary"] == true {
					sawSummary = true
					rep.mu.Lock()
					rep.Evaluations += int(m["evals"].(float64))
					rep.Counters["accepted_inputs"] += int(m["accepted"].(float64))
					rep.mu.Unlock()
					continue
				}
				if m["problem"] == "hang" {
					sawSummary = true // a child that reports a hang stops there, on purpose
				}
				rep.violate(fmt.Sprintf("parser/%v/%v", m["problem"], m["entry"]), fmt.Sprintf("%v in %v: %v (input %v)", m["problem"], m["entry"], m["detail"], m["input"]), m)
			}
			if err != nil || !sawSummary {
				txt := se.String()
				if len(txt) > 1500 {
					txt = txt[:1500]
				}
				if strings.Contains(txt, "panic:") || strings.Contains(txt, "fatal error:") {
					rep.violate("parser/crash", fmt.Sprintf("child with seed %d crashed: %s", cseed, txt), map[string]any{"family": "parser-fuzz", "seed": cseed, "per": per})
				} else if !sawSummary {
					rep.inconclusive(fmt.Sprintf("child %d ended without summary: %v %s", cseed, err, txt))
				}
			}
		}(p)
	}
	wg.Wait()
	rep.mu.Lock()
	for i := 0; i < rep.Counters["accepted_inputs"] && i < 1000000; i += 1 {
		rep.distinct[fmt.Sprint(i)] = struct{}{}
		if i > 100 {
			break
		}
	}
	rep.mu.Unlock()
	rep.sample(map[string]any{"note": "field-aware mutations (u64/u32 overwrite, varint splice, bit flip, truncate, insert, duplicate) of 28 valid CARv1/CARv2/index files and raw random strings", "entry_points": len(entryPoints)}, 1)
	rep.write(out)
	if len(rep.ViolClasses) > 0 {
		return 1
	}
	if len(rep.Inconcl) > 0 {
		return 2
	}
	return 0
}
