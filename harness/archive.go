package main

import (
	"github.com/ipfs/go-cid"
)

// Arch mirrors the archive record of spec/ArchiveOps.tla.
type Arch struct {
	Roots []string `json:"roots"`
	Secs  []string `json:"secs"`
	Ver   int      `json:"ver"`
	Dpad  int      `json:"dpad"`
	Ipad  int      `json:"ipad"`
	Idx   string   `json:"idx"`
	Full  bool     `json:"full"`
	Xid   bool     `json:"xid,omitempty"` // the index lists identity CIDs although the header does not say "fully indexed"
	Npad  int      `json:"npad"`
	Hx    int      `json:"hx"` // 1: non-canonical header (version written as the two-byte integer 0x18 0x01)
}

func (a *Arch) blocks() []*ABlock {
	var out []*ABlock
	for _, id := range a.Secs {
		out = append(out, alphaByID[id])
	}
	return out
}

func (a *Arch) rootCids() []cid.Cid { return idsToCids(a.Roots) }

func idxCodecNum(kind string) uint64 {
	if kind == "sorted" {
		return codecIndexSorted
	}
	return codecMhIndexSorted
}

// payload: CARv1 header, sections, null padding.
func (a *Arch) payload() []byte {
	p := refBuildV1(a.rootCids(), a.blocks())
	if a.Hx == 1 {
		// the same header with its last byte (version 1 as a one-byte integer) re-encoded in two bytes:
		// not canonical DAG-CBOR, but accepted by the decoder
		canon := refHeader(a.rootCids())
		body := refHeaderBody(a.rootCids(), 1)
		body = append(body[:len(body)-1], 0x18, 0x01)
		p = append(append(putUvarint(uint64(len(body))), body...), p[len(canon):]...)
	}
	return append(p, make([]byte, a.Npad)...)
}

// indexBytes: the canonical embedded index (nil when none).
func (a *Arch) indexBytes() []byte {
	if a.Ver != 2 || a.Idx == "none" {
		return nil
	}
	codec := idxCodecNum(a.Idx)
	v1, err := refParseV1(a.payload(), true)
	if err != nil {
		panic(err)
	}
	var recs []RefRec
	for _, s := range v1.Secs {
		r := refRecOf(s.Cid, uint64(s.Off), codec)
		if !a.Full && !a.Xid && isIdentityCid(s.Cid) {
			continue
		}
		recs = append(recs, r)
	}
	return refEncodeIndex(codec, recs)
}

func isIdentityCid(c cid.Cid) bool { return c.Prefix().MhType == 0 }

// build: the file bytes.
func (a *Arch) build() []byte {
	if a.Ver == 1 {
		return a.payload()
	}
	return refBuildV2(a.payload(), a.Dpad, a.Ipad, a.indexBytes(), a.Full)
}
