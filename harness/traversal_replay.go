package main

// Replay of Traversal.tla cases (C15) through every traversal writer of both modules.
// The oracle for "exactly the blocks loaded, once, in first-visit order" is the OBSERVED load
// sequence (the link system's StorageReadOpener is wrapped); the model's Loads is compared
// with it as an I-layer check.

import (
	"bytes"
	"context"
	"encoding/json"
	"fmt"
	"hash/fnv"
	"io"
	"os"
	"path/filepath"
	"runtime"
	"sync"

	blocks "github.com/ipfs/go-block-format"
	"github.com/ipfs/go-cid"
	format "github.com/ipfs/go-ipld-format"
	carv1root "github.com/ipld/go-car"
	carv2 "github.com/ipld/go-car/v2"
	"github.com/ipld/go-ipld-prime"
	_ "github.com/ipld/go-ipld-prime/codec/dagcbor"
	_ "github.com/ipld/go-ipld-prime/codec/raw"
	"github.com/ipld/go-ipld-prime/datamodel"
	"github.com/ipld/go-ipld-prime/linking"
	cidlink "github.com/ipld/go-ipld-prime/linking/cid"
	"github.com/ipld/go-ipld-prime/node/basicnode"
	"github.com/ipld/go-ipld-prime/traversal/selector"
	"github.com/ipld/go-ipld-prime/traversal/selector/builder"
	selectorparse "github.com/ipld/go-ipld-prime/traversal/selector/parse"
	"github.com/multiformats/go-multicodec"
	mh "github.com/multiformats/go-multihash"
)

type tvCase struct {
	Kids map[string][]string `json:"kids"`
	Opt  struct {
		Sel struct {
			Kind string `json:"kind"`
			D    int    `json:"d"`
			P    []int  `json:"p"`
		} `json:"sel"`
		Once   bool `json:"once"`
		Budget int  `json:"budget"`
	} `json:"opt"`
	Loads []string `json:"loads"`
	Err   bool     `json:"err"`
	Out   []string `json:"out"`
	Dags  []string `json:"dags"`  // roots of the (root, selector) pairs; two for the root module's multi-dag cases
	Alias string   `json:"alias"` // "" or the name under which the last node's bytes are linked with another codec
}

type tvDag struct {
	getRec *tvRecorder // when set, Get (the root module's loader) records its loads here
	cids   map[string]cid.Cid
	data   map[string][]byte // by cid key
	names  map[string]string // cid key -> node name
}

// tvNoIdentityLeaf: set by the get-dag replay, whose cases take blocks away from the store -- a block under an identity
// CID cannot be missing (its bytes are in the link), so that replay builds its DAGs without the identity leaf.
var tvNoIdentityLeaf bool

func buildTvDag(kids map[string][]string, order []string, alias string) *tvDag {
	d := &tvDag{cids: map[string]cid.Cid{}, data: map[string][]byte{}, names: map[string]string{}}
	for i := len(order) - 1; i >= 0; i-- {
		n := order[i]
		var b []byte
		codec := uint64(cid.DagCBOR)
		if len(kids[n]) == 0 && i%2 == 1 && !(alias != "" && i == len(order)-1) {
			// raw leaves sized so that CID (36 bytes) + data sits on a varint boundary: 128 and 16384
			size := 92
			if i == 1 {
				size = 16348
			}
			if i == 3 && len(kids[order[0]])%2 == 0 {
				size = 0 // an empty block: a section of varint + CID only
			}
			b = detBytes("raw leaf "+n, size)
			codec = cid.Raw
			if i == 3 && len(kids[order[0]])%2 == 1 && !tvNoIdentityLeaf {
				// an identity CID: the block's bytes are inlined in the link; it is a block of the DAG like any other
				b = detBytes("inline "+n, 11)
				ih, _ := mh.Sum(b, mh.IDENTITY, -1)
				c := cid.NewCidV1(cid.Raw, ih)
				d.cids[n] = c
				d.data[c.KeyString()] = b
				d.names[c.KeyString()] = n
				continue
			}
		} else {
			b = cborHead(4, uint64(1+len(kids[n])))
			b = append(b, cborHead(0, uint64(i))...) // distinguishes nodes with equal link lists
			for _, k := range kids[n] {
				cb := d.cids[k].Bytes()
				b = append(b, 0xd8, 0x2a)
				b = append(b, cborHead(2, uint64(len(cb)+1))...)
				b = append(b, 0)
				b = append(b, cb...)
			}
		}
		h, _ := mh.Sum(b, mh.SHA2_256, -1)
		c := cid.NewCidV1(codec, h)
		d.cids[n] = c
		d.data[c.KeyString()] = b
		d.names[c.KeyString()] = n
		if alias != "" && i == len(order)-1 {
			// the same bytes (a dag-cbor leaf) under the raw codec: another CID, the same multihash
			ac := cid.NewCidV1(cid.Raw, h)
			d.cids[alias] = ac
			d.data[ac.KeyString()] = b
			d.names[ac.KeyString()] = alias
		}
	}
	return d
}

type tvRecorder struct {
	mu    sync.Mutex
	loads []string
}

func (d *tvDag) linkSystem(rec *tvRecorder) ipld.LinkSystem {
	ls := cidlink.DefaultLinkSystem()
	ls.TrustedStorage = true
	ls.StorageReadOpener = func(_ linking.LinkContext, l ipld.Link) (io.Reader, error) {
		c := l.(cidlink.Link).Cid
		b, ok := d.data[c.KeyString()]
		if !ok {
			return nil, fmt.Errorf("not found")
		}
		rec.mu.Lock()
		rec.loads = append(rec.loads, d.names[c.KeyString()])
		rec.mu.Unlock()
		return bytes.NewReader(b), nil
	}
	return ls
}

func (d *tvDag) Get(_ context.Context, c cid.Cid) (blocks.Block, error) {
	b, ok := d.data[c.KeyString()]
	if !ok {
		return nil, format.ErrNotFound{Cid: c}
	}
	if d.getRec != nil {
		d.getRec.mu.Lock()
		d.getRec.loads = append(d.getRec.loads, d.names[c.KeyString()])
		d.getRec.mu.Unlock()
	}
	return blocks.NewBlockWithCid(b, c)
}

func tvSelector(kind string, depth int, p []int) datamodel.Node {
	if kind == "all" {
		return selectorparse.CommonSelector_ExploreAllRecursively
	}
	ssb := builder.NewSelectorSpecBuilder(basicnode.Prototype.Any)
	if kind == "path" {
		// a node is the list [tag, link1, link2, ...]: the k-th link is list index k
		spec := ssb.Matcher()
		for i := len(p) - 1; i >= 0; i-- {
			spec = ssb.ExploreIndex(int64(p[i]), spec)
		}
		return spec.Node()
	}
	return ssb.ExploreRecursive(selector.RecursionLimitDepth(int64(depth)), ssb.ExploreAll(ssb.ExploreRecursiveEdge())).Node()
}

func firstOcc(l []string) []string {
	seen := map[string]bool{}
	var out []string
	for _, x := range l {
		if !seen[x] {
			seen[x] = true
			out = append(out, x)
		}
	}
	return out
}

// sectionsNamed decodes a CARv1 payload into node names; returns also each section's offset and length.
func (d *tvDag) sectionsNamed(payload []byte, roots ...cid.Cid) ([]string, []int, []int, string) {
	v1, err := refParseV1(payload, false)
	if err != nil {
		return nil, nil, nil, "payload undecodable: " + err.Error()
	}
	if len(v1.Roots) != len(roots) {
		return nil, nil, nil, "header roots are not the traversal roots"
	}
	for i := range roots {
		if !v1.Roots[i].Equals(roots[i]) {
			return nil, nil, nil, "header roots are not the traversal roots"
		}
	}
	var names []string
	var offs, lens []int
	for _, s := range v1.Secs {
		n, ok := d.names[s.Cid.KeyString()]
		if !ok || !bytes.Equal(d.data[s.Cid.KeyString()], s.Data) {
			return nil, nil, nil, "section " + s.Cid.String() + " is not a block of the DAG"
		}
		names = append(names, n)
		offs = append(offs, s.Off)
		lens = append(lens, s.DataOff-s.Off+len(s.Data))
	}
	return names, offs, lens, ""
}

type tvViol struct{ class, msg string }

func runTraversalCase(c *tvCase, dir string, rep *Report) []tvViol {
	var viols []tvViol
	nn := len(c.Kids)
	if c.Alias != "" {
		nn--
	}
	order := []string{"n1", "n2", "n3", "n4"}[:nn]
	d := buildTvDag(c.Kids, order, c.Alias)
	root := d.cids["n1"]
	multi := len(c.Dags) > 1
	sel := tvSelector(c.Opt.Sel.Kind, c.Opt.Sel.D, c.Opt.Sel.P)
	h := fnv.New32a()
	h.Write([]byte(canon(c.Kids) + canon(c.Opt)))
	variant := h.Sum32()
	// paddings include exact multiples of the 4 KiB chunk a zero-filling helper would use
	dpad, ipad := []int{0, 17, 4096, 4097}[variant%4], []int{0, 9, 8192, 4095}[(variant/4)%4]
	codecName := []string{"mh", "sorted", "none"}[(variant/16)%3]
	v2opts := []carv2.Option{carv2.AllowDuplicatePuts(!c.Opt.Once)}
	if c.Opt.Budget >= 0 {
		v2opts = append(v2opts, carv2.MaxTraversalLinks(uint64(c.Opt.Budget)))
	}
	if dpad > 0 {
		v2opts = append(v2opts, carv2.UseDataPadding(uint64(dpad)))
	}
	if ipad > 0 {
		v2opts = append(v2opts, carv2.UseIndexPadding(uint64(ipad)))
	}
	switch codecName {
	case "sorted":
		v2opts = append(v2opts, carv2.UseIndexCodec(multicodec.CarIndexSorted))
	case "none":
		v2opts = append(v2opts, carv2.WithoutIndex())
	}
	add := func(class, msg string) { viols = append(viols, tvViol{class, msg}) }
	checkV2File := func(what string, b []byte, loads []string) {
		hd, err := refParseV2(b)
		if err != nil {
			add(what+"/malformed", err.Error())
			return
		}
		if int(hd.DataOffset) != 51+dpad {
			add(what+"/header", fmt.Sprintf("data offset %d, want %d", hd.DataOffset, 51+dpad))
		}
		names, offs, _, m := d.sectionsNamed(hd.Payload, root)
		if m != "" {
			add(what+"/payload", m+fmt.Sprintf(" (header data size %d, file %d bytes)", hd.DataSize, len(b)))
			return
		}
		if want := firstOcc(loads); fmt.Sprint(names) != fmt.Sprint(want) {
			add(what+"/blocks", fmt.Sprintf("archive holds %v, the traversal loaded %v (first visits %v)", names, loads, want))
		}
		if codecName == "none" {
			if hd.IndexOffset != 0 || len(b) != int(hd.DataOffset+hd.DataSize) {
				add(what+"/index", "WithoutIndex: index offset or trailing bytes present")
			}
			return
		}
		if int(hd.IndexOffset) != 51+dpad+len(hd.Payload)+ipad {
			add(what+"/header", fmt.Sprintf("index offset %d, want %d", hd.IndexOffset, 51+dpad+len(hd.Payload)+ipad))
			return
		}
		ix, err := refDecodeIndex(hd.Index)
		if err != nil {
			add(what+"/index", err.Error())
			return
		}
		var want []RefRec
		for i, n := range names {
			want = append(want, refRecOf(d.cids[n], uint64(offs[i]), ix.Codec))
		}
		g, w := recMultiset(ix.Recs), recMultiset(want)
		if !multisetLE(g, w) || !multisetLE(w, g) {
			add(what+"/index", "index records do not resolve exactly the written sections")
		}
	}
	// ---- v2 NewSelectiveWriter (two passes)
	if !multi {
		rec := &tvRecorder{}
		ls := d.linkSystem(rec)
		w, err := carv2.NewSelectiveWriter(bg, &ls, root, sel, v2opts...)
		pass1 := append([]string{}, rec.loads...)
		rec.loads = nil
		if err == nil {
			var buf bytes.Buffer
			n, werr := w.WriteTo(&buf)
			pass2 := append([]string{}, rec.loads...)
			if werr != nil {
				add("v2.SelectiveWriter/write-error", fmt.Sprintf("WriteTo failed after %d bytes: %v (counting pass loaded %v, writing pass %v)", buf.Len(), werr, pass1, pass2))
			} else {
				if int(n) != buf.Len() {
					add("v2.SelectiveWriter/returned-count", fmt.Sprintf("WriteTo returned %d, wrote %d bytes", n, buf.Len()))
				}
				if fmt.Sprint(pass1) != fmt.Sprint(pass2) {
					add("v2.SelectiveWriter/passes-differ", fmt.Sprintf("counting pass loaded %v, writing pass %v", pass1, pass2))
				}
				checkV2File("v2.SelectiveWriter", buf.Bytes(), pass2)
			}
			if fmt.Sprint(pass1) != fmt.Sprint(c.Loads) && !c.Err {
				rep.drift(fmt.Sprintf("kids %v opt %s: model loads %v, real %v", c.Kids, canon(c.Opt), c.Loads, pass1))
			}
		} else if !c.Err {
			rep.drift(fmt.Sprintf("kids %v opt %s: NewSelectiveWriter failed (%v), model says no error", c.Kids, canon(c.Opt), err))
		}
	}
	// ---- v2 TraverseV1
	if !multi {
		rec := &tvRecorder{}
		ls := d.linkSystem(rec)
		var buf bytes.Buffer
		n, err := carv2.TraverseV1(bg, &ls, root, sel, &buf, v2opts...)
		if err == nil {
			if int(n) != buf.Len() {
				add("v2.TraverseV1/returned-count", fmt.Sprintf("returned %d, wrote %d bytes", n, buf.Len()))
			}
			names, _, _, m := d.sectionsNamed(buf.Bytes(), root)
			if m != "" {
				add("v2.TraverseV1/payload", m)
			} else if want := firstOcc(rec.loads); fmt.Sprint(names) != fmt.Sprint(want) {
				add("v2.TraverseV1/blocks", fmt.Sprintf("archive holds %v, the traversal loaded %v", names, rec.loads))
			}
		}
	}
	// ---- v2 TraverseToFile
	if !multi {
		rec := &tvRecorder{}
		ls := d.linkSystem(rec)
		p := filepath.Join(dir, "tv.car")
		os.Remove(p)
		if err := carv2.TraverseToFile(bg, &ls, root, sel, p, v2opts...); err == nil {
			b, _ := os.ReadFile(p)
			checkV2File("v2.TraverseToFile", b, rec.loads)
		}
		os.Remove(p)
	}
	// ---- root module SelectiveCar
	{
		var ropts []carv1root.Option
		if c.Opt.Once {
			ropts = append(ropts, carv1root.TraverseLinksOnlyOnce())
		}
		if c.Opt.Budget >= 0 {
			ropts = append(ropts, carv1root.MaxTraversalLinks(uint64(c.Opt.Budget)))
		}
		dags := []carv1root.Dag{{Root: root, Selector: sel}}
		rootCids := []cid.Cid{root}
		if multi {
			dags, rootCids = nil, nil
			for _, r := range c.Dags {
				dags = append(dags, carv1root.Dag{Root: d.cids[r], Selector: sel})
				rootCids = append(rootCids, d.cids[r])
			}
		}
		sc := carv1root.NewSelectiveCar(bg, d, dags, ropts...)
		var wbuf bytes.Buffer
		var cbs []carv1root.Block
		d.getRec = &tvRecorder{}
		werr := sc.Write(&wbuf, func(b carv1root.Block) error { cbs = append(cbs, b); return nil })
		wloads := d.getRec.loads
		d.getRec = nil
		if werr != nil && !c.Err {
			rep.drift(fmt.Sprintf("kids %v opt %s: root SelectiveCar.Write failed (%v), model says no error", c.Kids, canon(c.Opt), werr))
		}
		if werr == nil {
			names, offs, lens, m := d.sectionsNamed(wbuf.Bytes(), rootCids...)
			if m != "" {
				add("root.SelectiveCar.Write/payload", m)
			} else {
				// exactly the blocks the traversal loaded, once, in first-visit order (observed loads are the oracle;
				// the model's loads are compared as an I-layer check)
				if want := firstOcc(wloads); fmt.Sprint(names) != fmt.Sprint(want) {
					add("root.SelectiveCar.Write/blocks", fmt.Sprintf("archive holds %v, the traversal loaded %v (first visits %v)", names, wloads, want))
				}
				if !c.Err && fmt.Sprint(wloads) != fmt.Sprint(c.Loads) {
					rep.drift(fmt.Sprintf("kids %v opt %s: model loads %v, root module loaded %v", c.Kids, canon(c.Opt), c.Loads, wloads))
				}
				// ... and the blocks the traversal visits do not depend on how the writer gets hold of them: where the
				// engine's load sequence is the specification's (checked above on the recording link system), the archive
				// holds its first occurrences
				// (several dags: the specification's loads are those of the dags one after the other, each walked in
				// full whatever an earlier dag has already put into the archive)
				if !c.Err && fmt.Sprint(names) != fmt.Sprint(firstOcc(c.Loads)) {
					add("root.SelectiveCar.Write/blocks-vs-traversal", fmt.Sprintf("archive holds %v, the traversal visits %v", names, firstOcc(c.Loads)))
				}
				for i := range names {
					for j := 0; j < i; j++ {
						if names[i] == names[j] {
							add("root.SelectiveCar.Write/blocks", fmt.Sprintf("block %s written twice", names[i]))
						}
					}
				}
				if len(cbs) != len(names) {
					add("root.SelectiveCar.Write/callbacks", fmt.Sprintf("%d callbacks for %d sections", len(cbs), len(names)))
				} else {
					for i, b := range cbs {
						if int(b.Offset) != offs[i] || int(b.Size) != lens[i] || !b.BlockCID.Equals(d.cids[names[i]]) {
							add("root.SelectiveCar.Write/callbacks", fmt.Sprintf("callback %d reports (offset %d, size %d), section is at %d with %d bytes", i, b.Offset, b.Size, offs[i], lens[i]))
							break
						}
					}
				}
				prep, perr := sc.Prepare()
				if perr != nil {
					add("root.SelectiveCar.Prepare/error", perr.Error())
				} else {
					if int(prep.Size()) != wbuf.Len() {
						add("root.SelectiveCar.Prepare/size", fmt.Sprintf("Prepare().Size() = %d, Write wrote %d bytes", prep.Size(), wbuf.Len()))
					}
					var pc []string
					for _, x := range prep.Cids() {
						pc = append(pc, d.names[x.KeyString()])
					}
					if fmt.Sprint(pc) != fmt.Sprint(names) {
						add("root.SelectiveCar.Prepare/cids", fmt.Sprintf("Cids() = %v, Write wrote %v", pc, names))
					}
					var dcbs, dcbs2 []carv1root.Block
					prep2, _ := sc.Prepare(func(b carv1root.Block) error { dcbs = append(dcbs, b); return nil },
						func(b carv1root.Block) error { dcbs2 = append(dcbs2, b); return nil }) // every registered callback sees the same blocks
					var dbuf bytes.Buffer
					if derr := prep2.Dump(bg, &dbuf); derr != nil {
						add("root.SelectiveCar.Dump/error", derr.Error())
					} else {
						if !bytes.Equal(dbuf.Bytes(), wbuf.Bytes()) {
							add("root.SelectiveCar.Dump/bytes", "Dump and Write produce different bytes")
						}
						for _, list := range [][]carv1root.Block{dcbs, dcbs2} {
							if len(list) != len(offs) {
								add("root.SelectiveCar.Dump/callbacks", fmt.Sprintf("%d Dump callbacks for %d sections", len(list), len(offs)))
								break
							}
							for i, b := range list {
								if int(b.Offset) != offs[i] || int(b.Size) != lens[i] {
									add("root.SelectiveCar.Dump/callbacks", fmt.Sprintf("Dump callback %d reports (offset %d, size %d), section is at %d with %d bytes", i, b.Offset, b.Size, offs[i], lens[i]))
									break
								}
							}
						}
					}
				}
			}
		}
	}
	return viols
}

func runTraversalReplay(args []string) int {
	in, out := args[0], args[1]
	rep := newReport("traversal")
	for _, v := range traversalADLCases() {
		rep.violate("traversal/"+v[0], v[1], map[string]any{"family": "traversal-adl"})
	}
	rep.eval("traversal-adl", true)
	jobs := make(chan []byte, 256)
	var wg sync.WaitGroup
	base := "/dev/shm"
	if _, err := os.Stat(base); err != nil {
		base = os.TempDir()
	}
	for w := 0; w < runtime.NumCPU(); w++ {
		wg.Add(1)
		go func() {
			defer wg.Done()
			dir, _ := os.MkdirTemp(base, "vh-tv-")
			defer os.RemoveAll(dir)
			for raw := range jobs {
				var c tvCase
				if err := json.Unmarshal(raw, &c); err != nil {
					rep.inconclusive("bad record: " + err.Error())
					continue
				}
				var vs []tvViol
				func() {
					defer func() {
						if r := recover(); r != nil {
							vs = append(vs, tvViol{"panic", fmt.Sprint(r)})
						}
					}()
					vs = runTraversalCase(&c, dir, rep)
				}()
				rep.eval(canon(c.Kids)+canon(c.Opt), len(c.Loads) > 1)
				for _, v := range vs {
					rep.violate("traversal/"+v.class, fmt.Sprintf("DAG %v options %s: %s", c.Kids, canon(c.Opt), v.msg), map[string]any{"family": "traversal", "case": c})
				}
				if len(c.Loads) > 3 {
					rep.sample(map[string]any{"dag": c.Kids, "opt": c.Opt, "model_loads": c.Loads}, 6)
				}
			}
		}()
	}
	err := readTLCRecords(in, func(raw []byte) error { jobs <- append([]byte{}, raw...); return nil })
	close(jobs)
	wg.Wait()
	if err != nil {
		rep.inconclusive(err.Error())
	}
	rep.write(out)
	if len(rep.ViolClasses) > 0 {
		return 1
	}
	if len(rep.Inconcl) > 0 {
		return 2
	}
	return 0
}
