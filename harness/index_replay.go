package main

// Replay of Index.tla states (C11): every load order of bounded record multisets on both
// on-disk index codecs.

import (
	"bufio"
	"bytes"
	"encoding/json"
	"errors"
	"fmt"
	"io"
	"runtime"
	"sort"
	"strings"
	"sync"

	"github.com/ipfs/go-cid"
	"github.com/ipld/go-car/v2/index"
	"github.com/multiformats/go-multicodec"
	mh "github.com/multiformats/go-multihash"
)

type ixRec struct {
	Code uint64 `json:"code"`
	Dig  string `json:"dig"`
	Off  string `json:"off"`
}

type ixBucket struct {
	Code    int64 `json:"code"`
	Width   int   `json:"width"`
	Count   int   `json:"count"`
	Entries []struct {
		Dig  string   `json:"dig"`
		Offs countMap `json:"offs"`
	} `json:"entries"`
}

type ixCodec struct {
	Canon []ixBucket `json:"canon"`
	Len   int        `json:"len"`
	Ans   map[string]struct {
		Offs []string `json:"offs"`
		N    int      `json:"n"`
	} `json:"ans"`
}

type ixCase struct {
	Loaded []ixRec `json:"loaded"`
	Mh     ixCodec `json:"mh"`
	Sorted ixCodec `json:"sorted"`
}

var ixDigTab = map[string]struct{ w, rank int }{"D32a": {32, 1}, "D32b": {32, 2}, "D20": {20, 1}, "D64": {64, 1}, "D0": {0, 1}, "D32z": {32, 0}, "D200": {200, 1}}
var ixOffTab = map[string]uint64{"o0": 0, "o1": 1, "o32": 1 << 32, "o63m": 1<<63 - 1, "o63": 1 << 63}

func ixDigest(id string) []byte {
	d := ixDigTab[id]
	out := make([]byte, d.w)
	for i := range out {
		out[i] = 0xAA
	}
	if d.w > 0 {
		// byte order == rank order; digests of one width differ in their LAST byte only (a long common
		// prefix: the comparison must go all the way), except rank 0, which starts with a zero byte
		out[d.w-1] = byte(0x10 + d.rank)
		if d.rank == 0 {
			out[0] = 0x00
		}
	}
	return out
}

func ixCid(r ixRec) cid.Cid {
	m, err := mh.Encode(ixDigest(r.Dig), r.Code)
	if err != nil {
		panic(err)
	}
	return cid.NewCidV1(cid.Raw, m)
}

func offName(v uint64) string {
	for k, x := range ixOffTab {
		if x == v {
			return k
		}
	}
	return fmt.Sprint(v)
}

func digName(b []byte) string {
	for k := range ixDigTab {
		if bytes.Equal(ixDigest(k), b) {
			return k
		}
	}
	return fmt.Sprintf("%x", b)
}

func checkIndexCase(c *ixCase, codecName string, exp *ixCodec) (string, string) {
	codec := multicodec.CarMultihashIndexSorted
	if codecName == "sorted" {
		codec = multicodec.CarIndexSorted
	}
	idx, err := index.New(codec)
	if err != nil {
		return "new", err.Error()
	}
	var recs []index.Record
	for _, r := range c.Loaded {
		recs = append(recs, index.Record{Cid: ixCid(r), Offset: ixOffTab[r.Off]})
	}
	if err := idx.Load(recs); err != nil {
		return "load", err.Error()
	}
	var first []byte
	for i := 0; i < 8; i++ {
		var buf bytes.Buffer
		n, err := index.WriteTo(idx, &buf)
		if err != nil {
			return "marshal-error", err.Error()
		}
		if int(n) != buf.Len() {
			return "marshal-count", fmt.Sprintf("WriteTo reports %d bytes, wrote %d", n, buf.Len())
		}
		if i == 0 {
			first = buf.Bytes()
		} else if !bytes.Equal(first, buf.Bytes()) {
			return "marshal-nondeterministic", "two serializations of the same index differ"
		}
	}
	if len(first) != exp.Len {
		return "marshal-length", fmt.Sprintf("serialized to %d bytes, specification says %d", len(first), exp.Len)
	}
	dec, err := refDecodeIndex(first)
	if err != nil {
		return "marshal-undecodable", err.Error()
	}
	if dec.Consumed != len(first) {
		return "marshal-trailing", "trailing bytes"
	}
	// bucket structure in file order
	type bk struct {
		code  int64
		width int
	}
	var order []bk
	perBucket := map[bk][]RefRec{}
	for _, r := range dec.Recs {
		k := bk{r.HCode, len(r.Digest)}
		if len(order) == 0 || order[len(order)-1] != k {
			order = append(order, k)
		}
		perBucket[k] = append(perBucket[k], r)
	}
	if len(order) != len(exp.Canon) {
		return "canon-buckets", fmt.Sprintf("%d buckets in the file, specification says %d", len(order), len(exp.Canon))
	}
	for i, b := range exp.Canon {
		if order[i].code != b.Code || order[i].width != b.Width {
			return "canon-bucket-order", fmt.Sprintf("bucket %d is (code %d, width %d), specification says (code %d, width %d)", i, order[i].code, order[i].width, b.Code, b.Width)
		}
		got := perBucket[order[i]]
		if len(got) != b.Count {
			return "canon-bucket-count", fmt.Sprintf("bucket %d holds %d records, specification says %d", i, len(got), b.Count)
		}
		p := 0
		for _, e := range b.Entries {
			tot := 0
			for _, n := range e.Offs {
				tot += n
			}
			seen := map[string]int{}
			for j := 0; j < tot; j++ {
				if p >= len(got) || digName(got[p].Digest) != e.Dig {
					return "canon-entry-order", fmt.Sprintf("bucket %d: entry %d is digest %s, specification says %s (entries ascend by digest)", i, p, digName(got[min(p, len(got)-1)].Digest), e.Dig)
				}
				seen[offName(got[p].Offset)]++
				p++
			}
			for o, n := range e.Offs {
				if seen[o] != n {
					return "canon-entry-offsets", fmt.Sprintf("bucket %d digest %s: offset %s x%d, specification says x%d", i, e.Dig, o, seen[o], n)
				}
			}
		}
	}
	if !dec.CodesAscending || !dec.WidthsAscending {
		return "canon-bucket-order", "buckets not ascending"
	}
	// round trip
	idx2, err := index.ReadFrom(bytes.NewReader(first))
	if err != nil {
		return "readfrom-error", err.Error()
	}
	if idx2.Codec() != codec {
		return "readfrom-codec", "codec changed"
	}
	// the same bytes through sources that return less than asked for (pipes, sockets, decompressors):
	// the index read back must serialize to the same bytes
	for _, src := range []struct {
		name string
		r    io.Reader
	}{{"one byte per Read", &chunkReader{bytes.NewReader(first), 1}}, {"7 bytes per Read", &chunkReader{bytes.NewReader(first), 7}}, {"bufio.Reader(16)", bufio.NewReaderSize(&chunkReader{bytes.NewReader(first), 5}, 16)}} {
		idx3, err := index.ReadFrom(src.r)
		if err != nil {
			return "readfrom-error/short-reads", fmt.Sprintf("source with %s: %v", src.name, err)
		}
		var again bytes.Buffer
		if _, err := index.WriteTo(idx3, &again); err != nil || !bytes.Equal(again.Bytes(), first) {
			return "readfrom-differs/short-reads", fmt.Sprintf("source with %s: the index read back serializes to %d bytes that differ from the %d read (err=%v)", src.name, again.Len(), len(first), err)
		}
	}
	for name, a := range exp.Ans {
		var q ixRec
		parts := strings.SplitN(name, "/", 2)
		fmt.Sscan(parts[0], &q.Code)
		q.Dig = strings.SplitN(parts[1], "@", 2)[0]
		qc := ixCid(q)
		for which, ix := range []index.Index{idx, idx2} {
			got := map[string]bool{}
			n := 0
			err := ix.GetAll(qc, func(o uint64) bool { got[offName(o)] = true; n++; return true })
			if len(a.Offs) == 0 {
				if !errors.Is(err, index.ErrNotFound) {
					return "lookup-absent", fmt.Sprintf("index #%d GetAll(%s): err=%v offsets=%v, want ErrNotFound", which, name, err, got)
				}
				continue
			}
			if err != nil {
				return "lookup-error", fmt.Sprintf("index #%d GetAll(%s): %v", which, name, err)
			}
			var gl []string
			for k := range got {
				gl = append(gl, k)
			}
			sort.Strings(gl)
			wl := append([]string{}, a.Offs...)
			sort.Strings(wl)
			if strings.Join(gl, ",") != strings.Join(wl, ",") || n != a.N {
				return "lookup-answers", fmt.Sprintf("index #%d (0=loaded, 1=read back) GetAll(%s) = %v in %d callbacks, specification says %v in %d", which, name, gl, n, wl, a.N)
			}
			f, err := index.GetFirst(ix, qc)
			if err != nil || !got[offName(f)] {
				return "lookup-first", fmt.Sprintf("GetFirst(%s)=%d err=%v", name, f, err)
			}
		}
	}
	// iteration
	it1, ok1 := idx.(index.IterableIndex)
	it2, ok2 := idx2.(index.IterableIndex)
	if ok1 != ok2 {
		return "foreach", "iterability changed over a round trip"
	}
	if ok1 {
		var s1, s2 []string
		it1.ForEach(func(m mh.Multihash, o uint64) error { s1 = append(s1, fmt.Sprintf("%x@%d", []byte(m), o)); return nil })
		it2.ForEach(func(m mh.Multihash, o uint64) error { s2 = append(s2, fmt.Sprintf("%x@%d", []byte(m), o)); return nil })
		if strings.Join(s1, " ") != strings.Join(s2, " ") {
			return "foreach-roundtrip", "ForEach differs between the loaded and the read-back index"
		}
		want := map[string]int{}
		for _, r := range c.Loaded {
			want[fmt.Sprintf("%x@%d", []byte(ixCid(r).Hash()), ixOffTab[r.Off])]++
		}
		got := map[string]int{}
		for _, s := range s1 {
			got[s]++
		}
		if len(got) != len(want) {
			return "foreach-multiset", fmt.Sprintf("ForEach yields %d distinct records, %d were loaded", len(got), len(want))
		}
		for k, v := range want {
			if got[k] != v {
				return "foreach-multiset", "ForEach multiset differs from the loaded records"
			}
		}
	}
	// "Load inserts a number of records into the index": the same records given in two calls are the same multiset
	for k := 1; k < len(recs); k++ {
		idx3, _ := index.New(codec)
		if err := idx3.Load(recs[:k]); err != nil {
			return "load", err.Error()
		}
		if err := idx3.Load(recs[k:]); err != nil {
			return "load", err.Error()
		}
		var buf bytes.Buffer
		if _, err := index.WriteTo(idx3, &buf); err != nil {
			return "marshal-error", err.Error()
		}
		if buf.Len() != len(first) {
			return "load-in-two-calls", fmt.Sprintf("records loaded as %d + %d serialize to %d bytes, loaded at once to %d: the second Load dropped records of the first", k, len(recs)-k, buf.Len(), len(first))
		}
		for name, a := range exp.Ans {
			var q ixRec
			parts := strings.SplitN(name, "/", 2)
			fmt.Sscan(parts[0], &q.Code)
			q.Dig = strings.SplitN(parts[1], "@", 2)[0]
			n := 0
			idx3.GetAll(ixCid(q), func(uint64) bool { n++; return true })
			if n != a.N {
				return "load-in-two-calls", fmt.Sprintf("records loaded as %d + %d: GetAll(%s) reports %d offsets, specification says %d", k, len(recs)-k, name, n, a.N)
			}
		}
	}
	return "", ""
}

func runIndexReplay(args []string) int {
	in, out := args[0], args[1]
	rep := newReport("index")
	jobs := make(chan []byte, 256)
	var wg sync.WaitGroup
	for w := 0; w < runtime.NumCPU(); w++ {
		wg.Add(1)
		go func() {
			defer wg.Done()
			for raw := range jobs {
				var c ixCase
				if err := json.Unmarshal(raw, &c); err != nil {
					rep.inconclusive("bad record: " + err.Error())
					continue
				}
				for _, codec := range []string{"mh", "sorted"} {
					exp := &c.Mh
					if codec == "sorted" {
						exp = &c.Sorted
					}
					var cls, msg string
					func() {
						defer func() {
							if r := recover(); r != nil {
								cls, msg = "panic", fmt.Sprint(r)
							}
						}()
						cls, msg = checkIndexCase(&c, codec, exp)
					}()
					rep.eval(canon(c.Loaded)+codec, len(c.Loaded) > 1)
					if cls != "" {
						rep.violate("indexcodec/"+cls+"/"+codec, fmt.Sprintf("load order %s, codec %s: %s", canon(c.Loaded), codec, msg),
							map[string]any{"family": "index", "loaded": c.Loaded, "codec": codec})
					}
				}
				if len(c.Loaded) >= 3 {
					rep.sample(map[string]any{"loaded": c.Loaded}, 6)
				}
			}
		}()
	}
	err := readTLCRecords(in, func(raw []byte) error { jobs <- append([]byte{}, raw...); return nil })
	close(jobs)
	wg.Wait()
	if err != nil {
		rep.inconclusive(err.Error())
	}
	rep.write(out)
	if len(rep.ViolClasses) > 0 {
		return 1
	}
	if len(rep.Inconcl) > 0 {
		return 2
	}
	return 0
}
