package main

// Replay of ExtractFS.tla archives (C17) through the built `car extract` in a sandbox.
// Verdict: a recursive snapshot of everything outside the output directory must be unchanged.
// The model's predicted tree inside the output directory is compared as an I-layer check (drift).

import (
	"bytes"
	"context"
	"encoding/json"
	"fmt"
	"hash/fnv"
	"os"
	"os/exec"
	"path/filepath"
	"runtime"
	"sort"
	"strings"
	"sync"

	"github.com/ipfs/go-cid"
	carlib "github.com/ipld/go-car/cmd/car/lib"
)

type xfTarget struct {
	Abs  bool     `json:"abs"`
	Segs []string `json:"segs"`
}

type xfEntry struct {
	K  string    `json:"k"`
	N  []string  `json:"n"`
	To xfTarget  `json:"to"`
	Ch []xfEntry `json:"ch"`
}

type xfNode struct {
	T  string   `json:"t"`
	C  string   `json:"c"`
	To xfTarget `json:"to"`
}

type xfCase struct {
	Arch []xfEntry `json:"arch"`
	Pre  []struct {
		Path []string `json:"path"`
		Node xfNode   `json:"node"`
	} `json:"pre"`
	Aborted bool `json:"aborted"`
	Tree    []struct {
		Path []string `json:"path"`
		Node xfNode   `json:"node"`
	} `json:"tree"`
	Contained bool     `json:"contained"`
	Mp        []string `json:"mp"` // --path argument ("" = everything)
}

func (t xfTarget) str(w string) string {
	if t.Abs {
		return filepath.Join(append([]string{w}, t.Segs[1:]...)...)
	}
	return strings.Join(t.Segs, "/")
}

// mkDir is the directory encoder in use: plain UnixFS directories, or HAMT shards (form 3)
func xfLinks(bs *blockSet, es []xfEntry, w string) []pbLink {
	return xfLinksWith(bs, es, w, bs.dir)
}

// rawLeaves: file entries are single raw-codec blocks (what `car create` makes of a small file)
// instead of dag-pb UnixFS file nodes; set per run by form 4.
func xfLinksWith(bs *blockSet, es []xfEntry, w string, mkDir func([]pbLink) pbLink) []pbLink {
	var out []pbLink
	for _, e := range es {
		var l pbLink
		switch e.K {
		case "file":
			if bs.rawLeaves {
				l = pbLink{Cid: bs.add(cid.Raw, []byte("DATA")), Tsize: 4}
			} else {
				l = bs.file([]byte("DATA"))
			}
		case "missing": // a link to a block that is not in the archive
			l = pbLink{Cid: bs.absent([]byte("absent " + strings.Join(e.N, "/"))), Tsize: 1}
		case "link":
			l = bs.symlink(e.To.str(w))
		case "dir":
			l = mkDir(xfLinksWith(bs, e.Ch, w, mkDir))
		}
		l.Name = strings.Join(e.N, "/")
		out = append(out, l)
	}
	return out
}

// snapshot of a tree: path -> description
// snapshotOutside: as snapshotTree, with the permission bits of every directory and file (the verdict covers
// metadata: a chmod through a link changes something outside, too)
func snapshotOutside(root string, skip string) map[string]string {
	return snapshotWalk(root, skip, true)
}

func snapshotTree(root string, skip string) map[string]string { return snapshotWalk(root, skip, false) }

func snapshotWalk(root string, skip string, modes bool) map[string]string {
	out := map[string]string{}
	filepath.Walk(root, func(p string, info os.FileInfo, err error) error {
		if err != nil {
			return nil
		}
		if skip != "" && (p == skip || strings.HasPrefix(p, skip+string(os.PathSeparator))) {
			if info.IsDir() {
				return filepath.SkipDir
			}
			return nil
		}
		rel, _ := filepath.Rel(root, p)
		switch {
		case info.Mode()&os.ModeSymlink != 0:
			t, _ := os.Readlink(p)
			out[rel] = "link:" + t
		case info.IsDir():
			out[rel] = "dir"
		default:
			b, _ := os.ReadFile(p)
			out[rel] = fmt.Sprintf("file:%d:%s:%v", len(b), string(b), info.ModTime().UnixNano())
		}
		if modes && info.Mode()&os.ModeSymlink == 0 {
			out[rel] += fmt.Sprintf(":mode=%o", info.Mode().Perm())
		}
		return nil
	})
	return out
}

func shapeOf(es []xfEntry) string {
	var s []string
	for _, e := range es {
		x := e.K + "(" + strings.Join(e.N, "/")
		if e.K == "link" {
			x += "->" + map[bool]string{true: "abs:", false: ""}[e.To.Abs] + strings.Join(e.To.Segs, "/")
		}
		if e.K == "dir" {
			x += ":" + shapeOf(e.Ch)
		}
		s = append(s, x+")")
	}
	return strings.Join(s, ",")
}

// kindsOf: coarse shape for classification (kinds and whether names repeat)
func kindsOf(c *xfCase) string {
	var ks []string
	names := map[string]int{}
	for _, e := range c.Arch {
		ks = append(ks, e.K)
		names[strings.Join(e.N, "/")]++
	}
	rep := "distinct-names"
	for _, n := range names {
		if n > 1 {
			rep = "repeated-name"
		}
	}
	pre := "empty-out"
	if len(c.Pre) > 0 {
		pre = "prepopulated-" + c.Pre[0].Node.T
	}
	return strings.Join(ks, "+") + "/" + rep + "/" + pre
}

var libExtractMu sync.Mutex

func runExtractCase(carBin string, c *xfCase, base string, form int) (string, string, string) {
	sand, _ := os.MkdirTemp(base, "vh-xf-")
	defer os.RemoveAll(sand)
	w := filepath.Join(sand, "w")
	os.MkdirAll(filepath.Join(w, "out"), 0o755)
	os.MkdirAll(filepath.Join(w, "sdir"), 0o755)
	os.MkdirAll(filepath.Join(w, "out2"), 0o755)
	os.WriteFile(filepath.Join(w, "sent"), []byte("SENTINEL"), 0o644)
	os.WriteFile(filepath.Join(w, "sdir", "f"), []byte("SENTINEL2"), 0o644)
	os.Chmod(filepath.Join(w, "sdir"), 0o555) // unusual permission bits: a chmod/mkdir through a link would show
	os.Chmod(filepath.Join(w, "sent"), 0o444)
	defer os.Chmod(filepath.Join(w, "sdir"), 0o755)
	for _, p := range c.Pre {
		full := filepath.Join(append([]string{w, "out"}, p.Path...)...)
		switch p.Node.T {
		case "dir":
			os.MkdirAll(full, 0o755)
		case "link":
			os.Symlink(p.Node.To.str(w), full)
		case "file":
			os.WriteFile(full, []byte(p.Node.C), 0o644)
		}
	}
	bs := newBlockSet()
	mkDir := bs.dir
	if form == 3 { // every directory, the root included, is a HAMT shard
		mkDir = bs.hamtDir
	}
	bs.rawLeaves = form == 4
	var roots []cid.Cid
	hasFileRoot := false
	for _, e := range c.Arch {
		hasFileRoot = hasFileRoot || e.K == "froot"
	}
	if hasFileRoot {
		// the items between two file roots are the entries of one directory root
		var run []xfEntry
		flush := func() {
			if len(run) > 0 {
				roots = append(roots, mkDir(xfLinksWith(bs, run, w, mkDir)).Cid)
				run = nil
			}
		}
		for _, e := range c.Arch {
			if e.K == "froot" {
				flush()
				roots = append(roots, bs.file([]byte("DATA")).Cid)
			} else {
				run = append(run, e)
			}
		}
		flush()
	} else if form == 1 && len(c.Arch) > 1 {
		// two roots: the first entry alone, then the rest
		r1 := bs.dir(xfLinks(bs, c.Arch[:1], w))
		r2 := bs.dir(xfLinks(bs, c.Arch[1:], w))
		roots = []cid.Cid{r1.Cid, r2.Cid}
	} else {
		roots = []cid.Cid{mkDir(xfLinksWith(bs, c.Arch, w, mkDir)).Cid}
	}
	carPath := filepath.Join(sand, "in.car")
	os.WriteFile(carPath, bs.carV1(roots), 0o644)
	before := snapshotOutside(w, filepath.Join(w, "out"))
	beforeSand := snapshotOutside(sand, w)
	xargs := []string{"extract", "-f", carPath}
	if len(c.Mp) > 0 {
		xargs = append(xargs, "-p", strings.Join(c.Mp, "/"))
	}
	cmd := exec.Command(carBin, append(xargs, filepath.Join(w, "out"))...)
	cmd.Dir = w
	if form == 2 { // the output directory given as "."
		cmd = exec.Command(carBin, append(xargs, ".")...)
		cmd.Dir = filepath.Join(w, "out")
	}
	var outb []byte
	var err error
	if form == 5 { // the library entry point, in this process
		var log bytes.Buffer
		libExtractMu.Lock() // one call at a time: package-level state in the library (if a change adds any) must not bring the harness down
		err = carlib.ExtractFromFile(context.Background(), carPath, filepath.Join(w, "out"), &log)
		libExtractMu.Unlock()
		outb = log.Bytes()
	} else {
		outb, err = cmd.CombinedOutput()
	}
	after := snapshotOutside(w, filepath.Join(w, "out"))
	afterSand := snapshotOutside(sand, w)
	diff := func(a, b map[string]string) string {
		var d []string
		for k, v := range a {
			if b[k] != v {
				d = append(d, fmt.Sprintf("%s: %q -> %q", k, v, b[k]))
			}
		}
		for k, v := range b {
			if _, ok := a[k]; !ok {
				d = append(d, fmt.Sprintf("%s: created %q", k, v))
			}
		}
		sort.Strings(d)
		return strings.Join(d, "; ")
	}
	if d := diff(before, after) + diff(beforeSand, afterSand); d != "" {
		return "escape", fmt.Sprintf("extraction changed the file system outside the output directory: %s (exit err=%v)", d, err), ""
	}
	// drift: model tree vs real tree inside out
	real := snapshotTree(filepath.Join(w, "out"), "")
	delete(real, ".")
	model := map[string]string{}
	for _, t := range c.Tree {
		p := filepath.Join(t.Path...)
		switch t.Node.T {
		case "dir":
			model[p] = "dir"
		case "link":
			model[p] = "link:" + t.Node.To.str(w)
		default:
			model[p] = "file"
		}
	}
	var drift []string
	for k, v := range model {
		rv, ok := real[k]
		if !ok || (v != "file" && rv != v) || (v == "file" && !strings.HasPrefix(rv, "file:")) {
			drift = append(drift, fmt.Sprintf("%s: model %s real %q", k, v, rv))
		}
	}
	for k := range real {
		if _, ok := model[k]; !ok {
			drift = append(drift, k+": only in the real tree")
		}
	}
	realErr := err != nil && !strings.Contains(string(outb), "no files extracted")
	if realErr != c.Aborted && (form == 0 || form >= 3) {
		drift = append(drift, fmt.Sprintf("exit error %v (%s), model aborted=%v", err, strings.TrimSpace(string(outb)), c.Aborted))
	}
	sort.Strings(drift)
	ds := ""
	if len(drift) > 0 && (form == 0 || form >= 3) {
		ds = strings.Join(drift, "; ")
	}
	return "", "", ds
}

func hasFroot(c *xfCase) bool {
	for _, e := range c.Arch {
		if e.K == "froot" {
			return true
		}
	}
	return false
}

func runExtractReplay(args []string) int {
	in, out, carBin := args[0], args[1], args[2]
	allHamt := len(args) > 3 && args[3] == "hamt=all"
	rep := newReport("extract")
	jobs := make(chan []byte, 256)
	var wg sync.WaitGroup
	base := "/dev/shm"
	if _, err := os.Stat(base); err != nil {
		base = os.TempDir()
	}
	for w := 0; w < runtime.NumCPU(); w++ {
		wg.Add(1)
		go func() {
			defer wg.Done()
			for raw := range jobs {
				var c xfCase
				if err := json.Unmarshal(raw, &c); err != nil {
					rep.inconclusive("bad record: " + err.Error())
					continue
				}
				hs := fnv.New32a()
				hs.Write([]byte(canon(c.Arch) + canon(c.Pre)))
				for form := 0; form < 6; form++ {
					if form == 5 && len(c.Mp) > 0 {
						continue // lib.ExtractFromFile has no path argument
					}
					if form == 5 {
						rep.count("lib_ExtractFromFile_runs", 1)
					}
					if form == 1 && (len(c.Arch) < 2 || hasFroot(&c) || len(c.Mp) > 0) {
						continue
					}
					if form == 3 && len(c.Mp) > 0 {
						continue // a lookup by name goes through the shard's hash positions, which the hand-made shard does not have
					}
					if form == 3 && !allHamt && hs.Sum32()%4 != 0 {
						continue // HAMT-sharded encoding: every fourth archive (all of them with hamt=all)
					}
					if form == 3 {
						rep.count("hamt_encoded_runs", 1)
					}
					if form == 4 && !allHamt && hs.Sum32()%4 != 1 {
						continue // raw-leaf files: every fourth archive
					}
					if form == 4 {
						rep.count("raw_leaf_runs", 1)
					}
					cls, msg, drift := runExtractCase(carBin, &c, base, form)
					rep.eval(canon(c.Arch)+canon(c.Pre)+fmt.Sprint(form), true)
					if cls != "" {
						rep.violate("extract/"+cls+"/"+kindsOf(&c), fmt.Sprintf("archive [%s] (%s roots) pre %s: %s", shapeOf(c.Arch), map[int]string{0: "one", 1: "two", 2: "one, output dir '.'", 3: "one, HAMT-sharded directories", 4: "one, raw-leaf files", 5: "lib.ExtractFromFile, one"}[form], canon(c.Pre), msg),
							map[string]any{"family": "extract", "case": c, "form": form})
					}
					if drift != "" {
						rep.drift(fmt.Sprintf("archive [%s]: %s", shapeOf(c.Arch), drift))
						rep.count("drift", 1)
					}
				}
				rep.count("archives", 1)
				if len(c.Arch) >= 2 {
					rep.sample(map[string]any{"archive": shapeOf(c.Arch), "prepopulated": c.Pre}, 8)
				}
			}
		}()
	}
	err := readTLCRecords(in, func(raw []byte) error { jobs <- append([]byte{}, raw...); return nil })
	close(jobs)
	wg.Wait()
	if err != nil {
		rep.inconclusive(err.Error())
	}
	rep.write(out)
	if len(rep.ViolClasses) > 0 {
		return 1
	}
	if len(rep.Inconcl) > 0 {
		return 2
	}
	return 0
}
