package main

// C16 for blockstore.ReadWrite on a real *os.File: a transient short write is produced by the
// kernel through RLIMIT_FSIZE (the write that would grow the file beyond L bytes persists the
// part below L and fails with EFBIG; SIGXFSZ ignored). The limit is process-wide, so each fault
// point runs in a child process that reports over its stdout pipe; the write hook lifts the
// limit again as soon as the faulted write has returned, which makes the fault transient.
// Writes that do not grow the file (the CARv2 header at Finalize) cannot be faulted this way.

import (
	"encoding/json"
	"fmt"
	"os"
	"os/exec"
	"os/signal"
	"path/filepath"
	"runtime"
	"strings"
	"sync"
	"syscall"

	blocks "github.com/ipfs/go-block-format"
	"github.com/ipld/go-car/v2/blockstore"
	"github.com/ipld/go-car/v2/storage/deferred"
	"github.com/ipld/go-car/v2/verifhook"
)

var bsFaultPlans = []ftPlan{
	{O: sOpts{Maxcid: 2048, Codec: "mh"}, Puts: []string{"b1", "b4"}},
	{O: sOpts{Maxcid: 2048, Codec: "sorted", Dpad: 1, Ipad: 7}, Puts: []string{"b12", "b13"}},
	{O: sOpts{Maxcid: 2048, Codec: "mh", V1: true}, Puts: []string{"b1", "b4"}},
	{O: sOpts{Maxcid: 2048, Codec: "mh", Ident: true}, Puts: []string{"b6", "b5", "b8"}},
	// one PutMany of three blocks, then a Put: a fault inside the batch after its first block
	{O: sOpts{Maxcid: 2048, Codec: "mh"}, Puts: []string{"b1", "b4", "b13", "b9"}, Many: 3},
	{O: sOpts{Maxcid: 2048, Codec: "sorted", V1: true}, Puts: []string{"b4", "b12", "b1", "b13"}, Many: 3},
	// two faults in one session: a long section fails far in, the next (short) one fails a few bytes in
	{O: sOpts{Maxcid: 2048, Codec: "mh", V1: true}, Puts: []string{"b15", "b1", "b4"}, Second: 5},
	{O: sOpts{Maxcid: 2048, Codec: "mh"}, Puts: []string{"b15", "b1", "b4"}, Second: 40},
	// the deferred writer on a path: its file and header come into being inside the first Put
	{O: sOpts{Maxcid: 2048, Codec: "mh"}, Puts: []string{"b1", "b4"}, Deferred: true},
	{O: sOpts{Maxcid: 2048, Codec: "mh", V1: true}, Puts: []string{"b1", "b4"}, Deferred: true},
}

func runFaultBsChild(args []string) int {
	var planIdx int
	var limit int64
	fmt.Sscan(args[0], &planIdx)
	fmt.Sscan(args[1], &limit)
	cont := args[2]
	dir := args[3]
	pl := bsFaultPlans[planIdx]
	o := ftObs{Sid: 100 + planIdx, W: -1, K: int(limit), Cont: cont, V1: pl.O.V1, Acked: []string{}}
	path := filepath.Join(dir, fmt.Sprintf("bsf-%d-%d-%s.car", planIdx, limit, cont))
	os.Remove(path)
	defer os.Remove(path)
	signal.Ignore(syscall.SIGXFSZ)
	if pl.Deferred {
		return runFaultDeferred(pl, planIdx, limit, cont, path, o)
	}
	fired := false
	inf := ^uint64(0)
	if limit >= 0 {
		if err := syscall.Setrlimit(syscall.RLIMIT_FSIZE, &syscall.Rlimit{Cur: uint64(limit), Max: inf}); err != nil {
			fmt.Println(`{"harness_error":"setrlimit"}`)
			return 0
		}
	}
	var lastEnd, ackedEnd int64 // end of the last successful write; end of the last acknowledged section
	faults := 0
	verifhook.Set(&verifhook.Hooks{Write: func(target any, off int64, p []byte, n int, err error) {
		if err == nil {
			lastEnd = off + int64(n)
			return
		}
		faults++
		if !fired {
			fired = true
			if pl.Second > 0 {
				// arm the second fault: the next section starts where the failed one did
				syscall.Setrlimit(syscall.RLIMIT_FSIZE, &syscall.Rlimit{Cur: uint64(ackedEnd + int64(pl.Second)), Max: inf})
				return
			}
		}
		syscall.Setrlimit(syscall.RLIMIT_FSIZE, &syscall.Rlimit{Cur: inf, Max: inf})
	}})
	bs, err := blockstore.OpenReadWrite(path, idsToCids([]string{"b1"}), pl.O.carOpts()...)
	if err != nil {
		syscall.Setrlimit(syscall.RLIMIT_FSIZE, &syscall.Rlimit{Cur: inf, Max: inf})
		o.Call, o.ErrRet = "open", fired
		if !fired {
			o.Msg = "open failed without a fault: " + err.Error()
		}
		b, _ := json.Marshal(o)
		fmt.Println(string(b))
		return 0
	}
	if fired {
		o.Call, o.ErrRet = "open", false
		b, _ := json.Marshal(o)
		fmt.Println(string(b))
		return 0
	}
	acked := map[string]bool{}
	stop := false
	ackedEnd = lastEnd
	if pl.Many > 0 {
		// What a failed PutMany keeps of its earlier elements is not fixed by the property; what
		// it keeps must be consistent: the blocks it still reports as stored are a proper prefix of
		// the batch (the failed block is not among them) and are held to "stored" from here on.
		var batch []blocks.Block
		for _, id := range pl.Puts[:pl.Many] {
			batch = append(batch, mkBlock(alphaByID[id]))
		}
		was := fired
		err := bs.PutMany(bg, batch)
		if err == nil {
			for _, id := range pl.Puts[:pl.Many] {
				acked[id] = true
			}
		}
		if !was && fired {
			o.Call, o.ErrRet = "putmany", err != nil
			if err != nil {
				prefix := true
				n := 0
				for _, id := range pl.Puts[:pl.Many] {
					has, herr := bs.Has(bg, alphaByID[id].Cid)
					_, gerr := bs.Get(bg, alphaByID[id].Cid)
					vis := herr == nil && has
					if vis != (gerr == nil) {
						o.Visible = true
						o.Msg += fmt.Sprintf(" after the failed PutMany Has(%s)=%v but Get err=%v;", id, has, gerr)
					}
					if vis && !prefix {
						o.Visible = true
						o.Msg += " a block after the failed one is reported as stored;"
					}
					if vis {
						acked[id] = true
						n++
					} else {
						prefix = false
					}
				}
				if n == pl.Many {
					o.Visible = true // every block of the failed call, the failed one included, is reported as stored
				}
			}
			switch cont {
			case "retry":
				if err != nil && bs.PutMany(bg, batch) == nil {
					for _, id := range pl.Puts[:pl.Many] {
						acked[id] = true
					}
				}
			case "finalize":
				stop = true
			}
		}
	}
	for _, id := range pl.Puts[pl.Many:] {
		if stop {
			break
		}
		blk := alphaByID[id]
		was := fired
		nf := faults
		err := bs.Put(bg, mkBlock(blk))
		if err == nil {
			ackedEnd = lastEnd
		}
		if was && faults > nf {
			// the second fault of the session: same obligations as the first
			if err == nil {
				o.ErrRet = false
				o.Msg += " the call that met the second fault returned nil;"
			} else {
				if has, herr := bs.Has(bg, blk.Cid); herr == nil && has {
					o.Visible = true
				}
			}
			continue
		}
		if !was && fired {
			o.Call, o.ErrRet = "put", err != nil
			if err == nil {
				acked[id] = true
			} else {
				if has, herr := bs.Has(bg, blk.Cid); herr == nil && has {
					o.Visible = true
				}
				if _, gerr := bs.Get(bg, blk.Cid); gerr == nil {
					o.Visible = true
				}
			}
			switch cont {
			case "retry":
				if err != nil {
					nf2 := faults
					rerr := bs.Put(bg, mkBlock(blk))
					if rerr == nil {
						acked[id] = true
						ackedEnd = lastEnd
						if faults > nf2 {
							o.ErrRet = false
							o.Msg += " the retry met the second fault and returned nil;"
						}
					}
				}
			case "finalize":
				stop = true
			}
			continue
		}
		if err == nil {
			acked[id] = true
		}
	}
	was := fired
	ferr := bs.Finalize()
	if !was && fired {
		o.Call, o.ErrRet = "finalize", ferr != nil
	}
	syscall.Setrlimit(syscall.RLIMIT_FSIZE, &syscall.Rlimit{Cur: inf, Max: inf})
	o.Faults = faults
	for id := range acked {
		o.Acked = append(o.Acked, id)
	}
	o.FinOK = ferr == nil
	if !fired {
		o.Call, o.ErrRet = "none", true
	}
	if o.FinOK {
		out, _ := os.ReadFile(path)
		var want []string
		for id := range acked {
			want = append(want, id)
		}
		m := wellFormedHolding(out, pl.O, []string{"b1"}, want, nil)
		o.Well, o.Msg = m == "", m
		o.Exact = true
		payload := out
		if !pl.O.V1 {
			if h, err := refParseV2(out); err == nil {
				payload = h.Payload
			}
		}
		if v1, err := refParseV1(payload, false); err == nil {
			for _, s := range v1.Secs {
				b2, ok := blockOfCid(s.Cid)
				if !ok || !acked[b2.ID] {
					o.Exact = false
					o.Msg += fmt.Sprintf(" archive holds %s whose Put did not succeed;", s.Cid)
				}
			}
		}
	}
	b, _ := json.Marshal(o)
	fmt.Println(string(b))
	return 0
}

// runFaultDeferred: the same session shape on a DeferredCarWriter. Not every write of that writer passes the
// write hook (the pragma is written sequentially), so the fault is recognised by the failing call and the limit
// is lifted when that call has returned: every write of the faulted call past the limit fails.
func runFaultDeferred(pl ftPlan, planIdx int, limit int64, cont, path string, o ftObs) int {
	inf := ^uint64(0)
	lift := func() { syscall.Setrlimit(syscall.RLIMIT_FSIZE, &syscall.Rlimit{Cur: inf, Max: inf}) }
	w := deferred.NewDeferredCarWriterForPath(path, idsToCids([]string{"b1"}), pl.O.carOpts()...)
	if limit >= 0 {
		syscall.Setrlimit(syscall.RLIMIT_FSIZE, &syscall.Rlimit{Cur: uint64(limit), Max: inf})
	}
	fired, stop := false, false
	acked := map[string]bool{}
	put := func(id string) error {
		b := alphaByID[id]
		return w.Put(bg, b.Cid.KeyString(), b.Data)
	}
	for _, id := range pl.Puts {
		if stop {
			break
		}
		err := put(id)
		if err == nil {
			acked[id] = true
			continue
		}
		if fired {
			o.Msg += " a Put after the fault failed: " + err.Error() + ";"
			continue
		}
		fired = true
		lift()
		o.Call, o.ErrRet = "put", true
		if has, herr := w.Has(bg, alphaByID[id].Cid.KeyString()); herr == nil && has {
			o.Visible = true
		}
		switch cont {
		case "retry":
			if put(id) == nil {
				acked[id] = true
			}
		case "finalize":
			stop = true
		}
	}
	ferr := w.Close()
	if !fired && ferr != nil {
		fired = true
		o.Call, o.ErrRet = "finalize", true
	}
	lift()
	if ferr != nil {
		// a Close that failed has closed the writer all the same
		if perr := put("b9"); perr == nil {
			o.Reopened = true
			o.Msg += " Put after the failed Close returned nil;"
		}
	}
	o.Faults = 1
	for id := range acked {
		o.Acked = append(o.Acked, id)
	}
	o.FinOK = ferr == nil
	if !fired {
		o.Call, o.ErrRet = "none", true
	}
	if o.FinOK {
		out, _ := os.ReadFile(path)
		var want []string
		for id := range acked {
			want = append(want, id)
		}
		if len(out) == 0 && len(want) == 0 {
			o.Well, o.Exact = true, true // no Put succeeded: the deferred writer may never have created its output
		} else {
			m := wellFormedHolding(out, pl.O, []string{"b1"}, want, nil)
			o.Well, o.Msg = m == "", o.Msg+m
			o.Exact = o.Well
		}
	}
	b, _ := json.Marshal(o)
	fmt.Println(string(b))
	return 0
}

// runFaultBsEnum appends blockstore observations to an existing observation file.
func runFaultBsEnum(args []string) int {
	out, obsPath := args[0], args[1]
	rep := newReport("fault-blockstore")
	self, _ := os.Executable()
	base := "/dev/shm"
	if _, err := os.Stat(base); err != nil {
		base = os.TempDir()
	}
	dir, _ := os.MkdirTemp(base, "vh-bsf-")
	defer os.RemoveAll(dir)
	of, err := os.OpenFile(obsPath, os.O_APPEND|os.O_CREATE|os.O_WRONLY, 0o644)
	if err != nil {
		rep.inconclusive(err.Error())
		rep.write(out)
		return 2
	}
	defer of.Close()
	var mu sync.Mutex
	type job struct {
		plan  int
		limit int64
		cont  string
	}
	jobs := make(chan job, 256)
	var wg sync.WaitGroup
	for w := 0; w < runtime.NumCPU(); w++ {
		wg.Add(1)
		go func() {
			defer wg.Done()
			for j := range jobs {
				cmd := exec.Command(self, "fault-bs-child", fmt.Sprint(j.plan), fmt.Sprint(j.limit), j.cont, dir)
				b, err := cmd.Output()
				line := strings.TrimSpace(string(b))
				if err != nil || !strings.HasPrefix(line, "{") || strings.Contains(line, "harness_error") {
					rep.inconclusive(fmt.Sprintf("fault child plan %d limit %d failed: %v %s", j.plan, j.limit, err, line))
					continue
				}
				var o ftObs
				if json.Unmarshal([]byte(line), &o) != nil {
					rep.inconclusive("bad child output")
					continue
				}
				mu.Lock()
				of.WriteString(line + "\n")
				mu.Unlock()
				rep.eval(fmt.Sprintf("%d/%d/%s", j.plan, j.limit, j.cont), o.Call != "none")
				rep.count("fault_in_"+o.Call, 1)
			}
		}()
	}
	for pi := range bsFaultPlans {
		// fault-free length of the final file
		cmd := exec.Command(self, "fault-bs-child", fmt.Sprint(pi), "-1", "next", dir)
		if b, err := cmd.Output(); err != nil || !strings.Contains(string(b), `"finok":true`) {
			rep.inconclusive(fmt.Sprintf("fault-free blockstore session %d failed: %v %s", pi, err, b))
			continue
		}
		// the final size is not reported by the child; every offset up to a generous bound is tried
		maxLen := int64(700)
		for l := int64(0); l < maxLen; l++ {
			for _, cont := range []string{"retry", "next", "finalize"} {
				jobs <- job{pi, l, cont}
			}
		}
	}
	close(jobs)
	wg.Wait()
	rep.sample(map[string]any{"plans": bsFaultPlans, "fault": "RLIMIT_FSIZE at every file offset 0..699, transient"}, 1)
	rep.write(out)
	if len(rep.Inconcl) > 0 {
		return 2
	}
	return 0
}
