package main

// Gate-driven systematic exploration of small concurrent programs (C08): the lock hooks block
// every goroutine at "pre" (before acquiring), "locked" and "unlocking"; a controller releases
// one goroutine at a time and explores the orders depth-first (stateless, by re-execution).

import (
	"bufio"
	"encoding/json"
	"fmt"
	"os"
	"strings"
	"sync"
	"time"
)

type gateCtl struct {
	mu      sync.Mutex
	gidx    map[int64]int // goroutine id -> program index
	parked  map[int]chan struct{}
	arrived chan int
	done    chan int
}

func (c *gateCtl) gate(obj any, method, point string) {
	c.mu.Lock()
	g, ok := c.gidx[goid()]
	if !ok {
		c.mu.Unlock()
		return
	}
	ch := make(chan struct{})
	c.parked[g] = ch
	c.mu.Unlock()
	c.arrived <- g
	<-ch
}

// runSchedule executes progs on a fresh store following `prefix` (then lowest-id-first).
// It returns the alternatives seen at each step, the recorder, the store, and an error text.
func runSchedule(kind, dir string, progs [][]ccOp, prefix []int, run int) (alts [][]int, taken []int, rec *ccRecorder, st ccStore, errText string) {
	st, err := newCCStore(kind, dir)
	if err != nil {
		return nil, nil, nil, nil, "open: " + err.Error()
	}
	rec = &ccRecorder{}
	ctl := &gateCtl{gidx: map[int64]int{}, parked: map[int]chan struct{}{}, arrived: make(chan int, 64), done: make(chan int, 64)}
	installLinHook(rec, ctl.gate)
	defer installLinHook(rec, nil)
	var wg sync.WaitGroup
	ready := make(chan struct{}, len(progs))
	for g := range progs {
		wg.Add(1)
		go func(g int) {
			defer wg.Done()
			ctl.mu.Lock()
			ctl.gidx[goid()] = g
			ctl.mu.Unlock()
			ready <- struct{}{}
			for _, op := range progs[g] {
				execOp(rec, st, g, run, op)
			}
			ctl.done <- g
		}(g)
	}
	for range progs {
		<-ready
	}
	parked := map[int]bool{}
	finished := map[int]bool{}
	inflight := map[int]bool{}
	for g := range progs {
		inflight[g] = true
	}
	// settle: wait until every in-flight goroutine is parked, finished, or silent for a while
	settle := func() {
		deadline := time.After(3 * time.Millisecond)
		for len(inflight) > 0 {
			select {
			case g := <-ctl.arrived:
				parked[g] = true
				delete(inflight, g)
			case g := <-ctl.done:
				finished[g] = true
				delete(inflight, g)
			case <-deadline:
				return // the rest is blocked on a lock
			}
		}
	}
	settle()
	step := 0
	start := time.Now()
	for len(finished) < len(progs) {
		if time.Since(start) > 10*time.Second {
			return alts, taken, rec, st, "deadlock: goroutines neither parked at a gate nor finished"
		}
		var cand []int
		for g := range parked {
			cand = append(cand, g)
		}
		if len(cand) == 0 {
			// everything in flight is blocked on a lock held by ... nobody parked: wait for progress
			select {
			case g := <-ctl.arrived:
				parked[g] = true
				delete(inflight, g)
			case g := <-ctl.done:
				finished[g] = true
				delete(inflight, g)
			case <-time.After(5 * time.Second):
				return alts, taken, rec, st, "deadlock: no goroutine can make progress"
			}
			continue
		}
		sortInts(cand)
		choice := cand[0]
		if step < len(prefix) {
			choice = prefix[step]
			found := false
			for _, c := range cand {
				if c == choice {
					found = true
				}
			}
			if !found {
				choice = cand[0]
			}
		}
		alts = append(alts, cand)
		taken = append(taken, choice)
		step++
		ctl.mu.Lock()
		ch := ctl.parked[choice]
		delete(ctl.parked, choice)
		ctl.mu.Unlock()
		delete(parked, choice)
		inflight[choice] = true
		close(ch)
		settle()
	}
	wg.Wait()
	return alts, taken, rec, st, ""
}

func sortInts(a []int) {
	for i := 1; i < len(a); i++ {
		for j := i; j > 0 && a[j] < a[j-1]; j-- {
			a[j], a[j-1] = a[j-1], a[j]
		}
	}
}

func runConcExplore(args []string) int {
	out, histPath := args[0], args[1]
	maxExec := 150
	for _, a := range args[2:] {
		if strings.HasPrefix(a, "max=") {
			fmt.Sscan(a[4:], &maxExec)
		}
	}
	rep := newReport("conc-explore")
	hf, _ := os.Create(histPath)
	hw := bufio.NewWriterSize(hf, 1<<20)
	defer func() { hw.Flush(); hf.Close() }()
	dir, _ := os.MkdirTemp("", "vh-cx-")
	defer os.RemoveAll(dir)
	programs := [][][]ccOp{
		{{{"put", 1}}, {{"put", 1}}},                                // same block twice
		{{{"put", 1}, {"has", 2}}, {{"put", 2}, {"get", 1}}},        // cross visibility
		{{{"put", 1}, {"put", 2}}, {{"keys", 0}, {"put", 1}}},       // listing vs puts
		{{{"put", 1}}, {{"finalize", 0}}, {{"get", 1}}},             // finalize vs writer vs reader
		{{{"put", 1}, {"finalize", 0}}, {{"put", 2}}},               // put racing with finalize
		{{{"put", 1}}, {{"put", 1}}, {{"put", 1}, {"finalize", 0}}}, // three writers, one block
	}
	run := 0
	for pi, progs := range programs {
		for _, kind := range []string{"blockstore", "storage", "deferred"} {
			stack := [][]int{{}}
			execs := 0
			seenSched := map[string]bool{}
			for len(stack) > 0 && execs < maxExec {
				prefix := stack[len(stack)-1]
				stack = stack[:len(stack)-1]
				run++
				alts, taken, rec, st, errText := runSchedule(kind, dir, progs, prefix, run)
				execs++
				key := fmt.Sprint(taken)
				if seenSched[key] {
					continue
				}
				seenSched[key] = true
				rep.eval(fmt.Sprintf("%d/%s/%s", pi, kind, key), true)
				if errText != "" {
					rep.violate("conc/"+strings.SplitN(errText, ":", 2)[0]+"/"+kind, fmt.Sprintf("program %d schedule %v: %s", pi, taken, errText),
						map[string]any{"family": "conc-explore", "kind": kind, "program": progs, "schedule": taken})
					continue
				}
				acked, attempted := map[string]bool{}, map[string]bool{}
				finalized := false
				for _, e := range rec.evs {
					if e.Op == "put" && e.Ev == "inv" {
						attempted[e.Key] = true
					}
					if e.Op == "put" && e.Ev == "resp" && e.Res == "ok" {
						acked[e.Key] = true
					}
					if e.Op == "finalize" && e.Ev == "resp" && e.Res == "ok" {
						finalized = true
					}
				}
				if !finalized {
					st.Finalize()
				}
				if m := finalFileCheck(kind, st.Bytes(), acked, attempted); m != "" {
					rep.violate("conc/final-file/"+kind, fmt.Sprintf("program %d schedule %v: %s", pi, taken, m),
						map[string]any{"family": "conc-explore", "kind": kind, "program": progs, "schedule": taken})
				}
				if m := storeExtraCheck(st, rec.evs); m != "" {
					rep.violate("conc/listeners/"+kind, fmt.Sprintf("program %d schedule %v: %s", pi, taken, m),
						map[string]any{"family": "conc-explore", "kind": kind, "program": progs, "schedule": taken})
				}
				for _, e := range rec.evs {
					e.Run = run
					b, _ := json.Marshal(e)
					hw.Write(b)
					hw.WriteByte('\n')
				}
				// branch: at every step beyond the prefix, the untaken alternatives
				for i := len(prefix); i < len(alts); i++ {
					for _, a := range alts[i] {
						if a != taken[i] {
							np := append(append([]int{}, taken[:i]...), a)
							stack = append(stack, np)
						}
					}
				}
			}
			rep.count("schedules_"+kind, len(seenSched))
			if pi < 3 && kind == "blockstore" {
				rep.sample(map[string]any{"program": progs, "distinct_schedules": len(seenSched)}, 4)
			}
		}
	}
	rep.write(out)
	if len(rep.ViolClasses) > 0 {
		return 1
	}
	return 0
}
