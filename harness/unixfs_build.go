package main

// Hand-encoded dag-pb / UnixFS nodes (so that link order, duplicate names and hostile names
// are under the harness's control) and a tiny in-memory block collection written as a CAR.

import (
	"crypto/sha256"
	"fmt"

	"github.com/ipfs/go-cid"
	mh "github.com/multiformats/go-multihash"
)

func pbVarint(x uint64) []byte { return putUvarint(x) }

func pbField(num int, wire int) []byte { return pbVarint(uint64(num<<3 | wire)) }

func pbBytes(num int, b []byte) []byte {
	out := pbField(num, 2)
	out = append(out, pbVarint(uint64(len(b)))...)
	return append(out, b...)
}

func pbUint(num int, v uint64) []byte { return append(pbField(num, 0), pbVarint(v)...) }

// UnixFS Data message: Type=1 (enum), Data=2, filesize=3
const (
	ufsRaw       = 0
	ufsDirectory = 1
	ufsFile      = 2
	ufsSymlink   = 4
)

func ufsData(typ int, data []byte, filesize int64) []byte {
	out := pbUint(1, uint64(typ))
	if data != nil {
		out = append(out, pbBytes(2, data)...)
	}
	if filesize >= 0 {
		out = append(out, pbUint(3, uint64(filesize))...)
	}
	return out
}

type pbLink struct {
	Name  string
	Cid   cid.Cid
	Tsize uint64
}

// dagpbNode encodes PBNode{Links, Data} (links first, as the canonical form requires).
func dagpbNode(links []pbLink, data []byte) []byte {
	var out []byte
	for _, l := range links {
		var lb []byte
		lb = append(lb, pbBytes(1, l.Cid.Bytes())...)
		lb = append(lb, pbBytes(2, []byte(l.Name))...)
		lb = append(lb, pbUint(3, l.Tsize)...)
		out = append(out, pbBytes(2, lb)...)
	}
	if data != nil {
		out = append(out, pbBytes(1, data)...)
	}
	return out
}

type blockSet struct {
	order     []cid.Cid
	data      map[string][]byte
	rawLeaves bool
}

func newBlockSet() *blockSet { return &blockSet{data: map[string][]byte{}} }

func (bs *blockSet) add(codec uint64, b []byte) cid.Cid {
	h := sha256.Sum256(b)
	m, _ := mh.Encode(h[:], mh.SHA2_256)
	c := cid.NewCidV1(codec, m)
	if _, ok := bs.data[c.KeyString()]; !ok {
		bs.data[c.KeyString()] = b
		bs.order = append(bs.order, c)
	}
	return c
}

// absent: the CID of a dag-pb file node that is NOT put into the set
func (bs *blockSet) absent(content []byte) cid.Cid {
	b := dagpbNode(nil, ufsData(ufsFile, content, int64(len(content))))
	h := sha256.Sum256(b)
	m, _ := mh.Encode(h[:], mh.SHA2_256)
	return cid.NewCidV1(cid.DagProtobuf, m)
}

func (bs *blockSet) file(content []byte) pbLink {
	c := bs.add(cid.DagProtobuf, dagpbNode(nil, ufsData(ufsFile, content, int64(len(content)))))
	return pbLink{Cid: c, Tsize: uint64(len(content))}
}

func (bs *blockSet) symlink(target string) pbLink {
	c := bs.add(cid.DagProtobuf, dagpbNode(nil, ufsData(ufsSymlink, []byte(target), -1)))
	return pbLink{Cid: c, Tsize: uint64(len(target))}
}

func (bs *blockSet) dir(links []pbLink) pbLink {
	c := bs.add(cid.DagProtobuf, dagpbNode(links, ufsData(ufsDirectory, nil, -1)))
	return pbLink{Cid: c, Tsize: 0}
}

// hamtDir encodes the entries as ONE HAMT shard node (UnixFS type 5, fanout 256, murmur3): every link is a
// value link named <two hex digits><name>. The reader walks the links in node order and strips the two
// digits without re-hashing, so order, duplicate and hostile names stay under the builder's control.
func (bs *blockSet) hamtDir(links []pbLink) pbLink {
	var hl []pbLink
	bitfield := make([]byte, 32)
	for i, l := range links {
		slot := i % 256
		bitfield[31-slot/8] |= 1 << (slot % 8)
		hl = append(hl, pbLink{Name: fmt.Sprintf("%02X%s", slot, l.Name), Cid: l.Cid, Tsize: l.Tsize})
	}
	d := pbUint(1, 5)
	d = append(d, pbBytes(2, bitfield)...)
	d = append(d, pbUint(5, 0x22)...)
	d = append(d, pbUint(6, 256)...)
	c := bs.add(cid.DagProtobuf, dagpbNode(hl, d))
	return pbLink{Cid: c, Tsize: 0}
}

// carV1 writes the blocks under the given roots.
func (bs *blockSet) carV1(roots []cid.Cid) []byte {
	out := refHeader(roots)
	for _, c := range bs.order {
		out = append(out, refSection(c, bs.data[c.KeyString()])...)
	}
	return out
}
