package main

// Replay of ArchiveCases.tla records on the reader-side APIs:
//   mode idx   (C03)  index generation/loading entry points x source kinds x options
//   mode ro    (C07)  read-only blockstore and readable storage vs the scan
//   mode stats (C13)  Reader.Inspect vs the specification's Stats and vs a verifying scan
//   mode scan  (C01 read side) every reader returns the spec's roots and (cid, bytes) sequence

import (
	"bufio"
	"bytes"
	"encoding/binary"
	"encoding/json"
	"errors"
	"fmt"
	"io"
	"os"
	"path/filepath"
	"runtime"
	"sort"
	"strings"
	"sync"

	blocks "github.com/ipfs/go-block-format"
	"github.com/ipfs/go-cid"
	carv1root "github.com/ipld/go-car"
	carlib "github.com/ipld/go-car/cmd/car/lib"
	carv2 "github.com/ipld/go-car/v2"
	"github.com/ipld/go-car/v2/blockstore"
	"github.com/ipld/go-car/v2/index"
	"github.com/ipld/go-car/v2/storage"
	"github.com/ipld/go-car/v2/verifexport"
	"github.com/multiformats/go-multicodec"
	mh "github.com/multiformats/go-multihash"
)

type acScan struct {
	B    string `json:"b"`
	Off  uint64 `json:"off"`
	Src  uint64 `json:"src"`
	Doff uint64 `json:"doff"`
	Size uint64 `json:"size"`
}

type acLayout struct {
	FileLen     int `json:"fileLen"`
	DataOff     int `json:"dataOff"`
	DataSize    int `json:"dataSize"`
	IdxOff      int `json:"idxOff"`
	HeaderLen   int `json:"headerLen"`
	SectionsEnd int `json:"sectionsEnd"`
}

type acStats struct {
	Version      int      `json:"version"`
	Roots        []string `json:"roots"`
	RootsPresent bool     `json:"rootsPresent"`
	Count        uint64   `json:"count"`
	MinCid       uint64   `json:"minCid"`
	MaxCid       uint64   `json:"maxCid"`
	AvgCid       uint64   `json:"avgCid"`
	MinBlk       uint64   `json:"minBlk"`
	MaxBlk       uint64   `json:"maxBlk"`
	AvgBlk       uint64   `json:"avgBlk"`
	Codecs       countMap `json:"codecs"`
	Hashes       countMap `json:"hashes"`
	DataOff      uint64   `json:"dataOff"`
	DataSize     uint64   `json:"dataSize"`
	IdxOff       uint64   `json:"idxOff"`
	IdxCodec     string   `json:"idxCodec"`
}

// countMap: TLC prints an empty function as [].
type countMap map[string]int

func (c *countMap) UnmarshalJSON(b []byte) error {
	*c = countMap{}
	if len(b) > 0 && b[0] == '[' {
		return nil
	}
	return json.Unmarshal(b, (*map[string]int)(c))
}

type acCase struct {
	A      Arch                           `json:"a"`
	Layout acLayout                       `json:"layout"`
	Scan   []acScan                       `json:"scan"`
	Stats  *acStats                       `json:"stats"`
	Verif  *bool                          `json:"verifies"`
	Idx    map[string]map[string][]uint64 `json:"idx"`
	Ro     map[string]map[string]struct {
		HasIx  []string `json:"has_ix"`
		GetIx  []string `json:"get_ix"`
		HasNix []string `json:"has_nix"`
		GetNix []string `json:"get_nix"`
	} `json:"ro"`
}

// plainReader hides every optional interface of the wrapped reader.
type plainReader struct{ r io.Reader }

func (p *plainReader) Read(b []byte) (int, error) { return p.r.Read(b) }

// seekOnly offers Read and Seek and nothing else (no ReadAt, no ReadByte).
type seekOnly struct{ r io.ReadSeeker }

func (p *seekOnly) Read(b []byte) (int, error)                { return p.r.Read(b) }
func (p *seekOnly) Seek(off int64, whence int) (int64, error) { return p.r.Seek(off, whence) }

// readerAtOnly hides Read/Seek.
type readerAtOnly struct{ r io.ReaderAt }

func (p *readerAtOnly) ReadAt(b []byte, off int64) (int, error) { return p.r.ReadAt(b, off) }

type acCtx struct {
	dir string
	rep *Report
}

func (x *acCtx) viol(class string, c *acCase, detail string, extra map[string]any) {
	r := map[string]any{"family": "archive", "a": c.A}
	for k, v := range extra {
		r[k] = v
	}
	x.rep.violate(class, "archive "+canon(c.A)+": "+detail, r)
}

func sortedU64(m map[uint64]bool) []uint64 {
	var out []uint64
	for k := range m {
		out = append(out, k)
	}
	sort.Slice(out, func(i, j int) bool { return out[i] < out[j] })
	return out
}

func sameU64(a, b []uint64) bool {
	if len(a) != len(b) {
		return false
	}
	for i := range a {
		if a[i] != b[i] {
			return false
		}
	}
	return true
}

// ---- C03 ---------------------------------------------------------------------------------

// checkIndexAnswers compares idx against the specification's answer table `col` and against the bytes.
func checkIndexAnswers(c *acCase, idx index.Index, col string, payload []byte) string {
	ids := make([]string, 0, len(c.Idx))
	for id := range c.Idx {
		ids = append(ids, id)
	}
	sort.Strings(ids)
	for _, id := range ids {
		q := alphaByID[id]
		want := append([]uint64{}, c.Idx[id][col]...)
		sort.Slice(want, func(i, j int) bool { return want[i] < want[j] })
		got := map[uint64]bool{}
		n := 0
		err := idx.GetAll(q.Cid, func(o uint64) bool { got[o] = true; n++; return true })
		if len(want) == 0 {
			if !errors.Is(err, index.ErrNotFound) {
				return fmt.Sprintf("GetAll(%s): absent key reported (err=%v, offsets %v), want ErrNotFound", id, err, sortedU64(got))
			}
		} else {
			if err != nil {
				return fmt.Sprintf("GetAll(%s) failed: %v, want offsets %v", id, err, want)
			}
			if !sameU64(sortedU64(got), want) || n != len(want) {
				return fmt.Sprintf("GetAll(%s) = %v (%d callbacks), specification says %v", id, sortedU64(got), n, want)
			}
		}
		first, err := index.GetFirst(idx, q.Cid)
		if len(want) == 0 {
			if !errors.Is(err, index.ErrNotFound) {
				return fmt.Sprintf("GetFirst(%s): err=%v, want ErrNotFound", id, err)
			}
		} else if err != nil || !got[first] {
			return fmt.Sprintf("GetFirst(%s) = %d (err=%v), not one of %v", id, first, err, want)
		}
		// every reported offset decodes to a section with that key
		for o := range got {
			if int(o) >= len(payload) {
				return fmt.Sprintf("GetAll(%s): offset %d beyond the payload", id, o)
			}
			sl, k := getUvarint(payload[o:])
			if k <= 0 || int(o)+k+int(sl) > len(payload) {
				return fmt.Sprintf("GetAll(%s): no section starts at offset %d", id, o)
			}
			_, sc, err := cid.CidFromBytes(payload[int(o)+k : int(o)+k+int(sl)])
			if err != nil {
				return fmt.Sprintf("GetAll(%s): offset %d does not hold a CID: %v", id, o, err)
			}
			qd, _ := mh.Decode(q.Cid.Hash())
			sd, _ := mh.Decode(sc.Hash())
			if strings.HasPrefix(col, "mh") {
				if !bytes.Equal(sc.Hash(), q.Cid.Hash()) {
					return fmt.Sprintf("GetAll(%s): section at %d has another multihash", id, o)
				}
			} else if !bytes.Equal(qd.Digest, sd.Digest) {
				return fmt.Sprintf("GetAll(%s): section at %d has another digest", id, o)
			}
		}
	}
	return ""
}

func checkForEach(c *acCase, idx index.Index, ident bool) string {
	it, ok := idx.(index.IterableIndex)
	if !ok {
		return ""
	}
	want := map[string]int{}
	for _, s := range c.Scan {
		b := alphaByID[s.B]
		if !ident && isIdentityCid(b.Cid) {
			continue
		}
		want[fmt.Sprintf("%x@%d", []byte(b.Cid.Hash()), s.Off)]++
	}
	got := map[string]int{}
	if err := it.ForEach(func(m mh.Multihash, o uint64) error { got[fmt.Sprintf("%x@%d", []byte(m), o)]++; return nil }); err != nil {
		return "ForEach failed: " + err.Error()
	}
	if len(got) != len(want) {
		return fmt.Sprintf("ForEach yields %d distinct records, specification says %d", len(got), len(want))
	}
	for k, v := range want {
		if got[k] != v {
			return fmt.Sprintf("ForEach record %s x%d, specification says x%d", k, got[k], v)
		}
	}
	return ""
}

func runIdxCase(x *acCtx, c *acCase) {
	file := c.A.build()
	payload := c.A.payload()
	path := filepath.Join(x.dir, "i.car")
	os.WriteFile(path, file, 0o644)
	defer os.Remove(path)
	maxCid := 0
	for _, s := range c.Scan {
		if l := len(alphaByID[s.B].Cid.Bytes()); l > maxCid {
			maxCid = l
		}
	}
	for _, ident := range []bool{false, true} {
		for _, kind := range []string{"mh", "sorted", "insertion"} {
			for _, limit := range []uint64{0, 64} {
				col := "dig"
				if kind == "mh" {
					col = "mh"
				}
				if ident {
					col += "_id"
				} else {
					col += "_noid"
				}
				opts := []carv2.Option{carv2.StoreIdentityCIDs(ident)}
				if c.A.Npad > 0 {
					opts = append(opts, carv2.ZeroLengthSectionAsEOF(true))
				}
				if limit > 0 {
					opts = append(opts, carv2.MaxIndexCidSize(limit))
				}
				if kind == "sorted" {
					opts = append(opts, carv2.UseIndexCodec(multicodec.CarIndexSorted))
				}
				// which sections get indexed; is one of them over the limit?
				tooLarge := false
				if limit > 0 {
					for _, s := range c.Scan {
						b := alphaByID[s.B]
						if (ident || !isIdentityCid(b.Cid)) && uint64(len(b.Cid.Bytes())) > limit {
							tooLarge = true
						}
					}
				}
				sources := []string{"bytes.Reader", "os.File", "plain io.Reader", "bufio.Reader", "bytes.Buffer", "ReadSeeker-only", "fromFile"}
				for _, src := range sources {
					var idx index.Index
					var err error
					mkReader := func() (io.Reader, func()) {
						switch src {
						case "bytes.Reader":
							return bytes.NewReader(file), func() {}
						case "os.File":
							f, _ := os.Open(path)
							return f, func() { f.Close() }
						case "bufio.Reader": // a stream that is also an io.ByteReader
							return bufio.NewReaderSize(&plainReader{bytes.NewReader(file)}, 16), func() {}
						case "bytes.Buffer":
							return bytes.NewBuffer(append([]byte{}, file...)), func() {}
						case "ReadSeeker-only":
							return &seekOnly{bytes.NewReader(file)}, func() {}
						default:
							return &plainReader{bytes.NewReader(file)}, func() {}
						}
					}
					switch {
					case src == "fromFile":
						if kind == "insertion" {
							continue
						}
						idx, err = carv2.GenerateIndexFromFile(path, opts...)
					case kind == "insertion":
						r, cl := mkReader()
						ii := index.NewInsertionIndex()
						err = carv2.LoadIndex(ii, r, opts...)
						idx = ii
						cl()
					default:
						r, cl := mkReader()
						idx, err = carv2.GenerateIndex(r, opts...)
						cl()
					}
					tag := fmt.Sprintf("%s/%s/ident=%v/max=%d", kind, src, ident, limit)
					x.rep.eval(canon(c.A)+tag, len(c.Scan) > 1)
					if tooLarge {
						var tl *carv2.ErrCidTooLarge
						if !errors.As(err, &tl) {
							x.viol("index/too-large-not-refused/"+src, c, fmt.Sprintf("%s: a %d-byte CID over MaxIndexCidSize=%d was not refused with ErrCidTooLarge (err=%v)", tag, maxCid, limit, err), map[string]any{"mode": "idx"})
						}
						continue
					}
					if err != nil {
						x.viol("index/generate-error/"+src, c, fmt.Sprintf("%s: index generation failed on a valid archive: %v", tag, err), map[string]any{"mode": "idx"})
						continue
					}
					if m := checkIndexAnswers(c, idx, col, payload); m != "" {
						x.viol("index/answers/"+src, c, tag+": "+m, map[string]any{"mode": "idx"})
						continue
					}
					if m := checkForEach(c, idx, ident); m != "" {
						x.viol("index/foreach/"+src, c, tag+": "+m, map[string]any{"mode": "idx"})
					}
				}
			}
		}
		// ReadOrGenerateIndex: embedded index when present, else generated
		opts := []carv2.Option{carv2.StoreIdentityCIDs(ident)}
		if c.A.Npad > 0 {
			opts = append(opts, carv2.ZeroLengthSectionAsEOF(true))
		}
		for _, rsKind := range []string{"bytes.Reader", "ReadSeeker-only"} {
			var rs io.ReadSeeker = bytes.NewReader(file)
			if rsKind == "ReadSeeker-only" { // positional reads go through the library's own adapter
				rs = &seekOnly{bytes.NewReader(file)}
			}
			idx, err := carv2.ReadOrGenerateIndex(rs, opts...)
			x.rep.eval(canon(c.A)+fmt.Sprintf("rog/%v/%s", ident, rsKind), len(c.Scan) > 1)
			if err != nil {
				x.viol("index/read-or-generate-error", c, fmt.Sprintf("ReadOrGenerateIndex(%s, ident=%v) failed: %v", rsKind, ident, err), map[string]any{"mode": "idx"})
			} else {
				col, effIdent := "mh", ident
				if c.A.Ver == 2 && c.A.Idx != "none" {
					effIdent = c.A.Full
					if c.A.Idx == "sorted" {
						col = "dig"
					}
				}
				if effIdent {
					col += "_id"
				} else {
					col += "_noid"
				}
				if m := checkIndexAnswers(c, idx, col, payload); m != "" {
					x.viol("index/read-or-generate-answers", c, fmt.Sprintf("ReadOrGenerateIndex(%s, ident=%v): %s", rsKind, ident, m), map[string]any{"mode": "idx"})
				}
			}
		}
	}
}

// ---- C07 ---------------------------------------------------------------------------------

type roFront interface {
	Has(c cid.Cid) (bool, error)
	Get(c cid.Cid) ([]byte, error)
	Size(c cid.Cid) (int, error, bool)
	Keys() ([]cid.Cid, error, bool)
	Roots() ([]cid.Cid, error)
	Close()
}

type roBS struct{ b *blockstore.ReadOnly }

func (r *roBS) Has(c cid.Cid) (bool, error) { return r.b.Has(bg, c) }
func (r *roBS) Get(c cid.Cid) ([]byte, error) {
	b, err := r.b.Get(bg, c)
	if err != nil {
		return nil, err
	}
	if !b.Cid().Equals(c) {
		return nil, fmt.Errorf("harness: Get returned CID %s for query %s", b.Cid(), c)
	}
	return b.RawData(), nil
}
func (r *roBS) Size(c cid.Cid) (int, error, bool) { n, err := r.b.GetSize(bg, c); return n, err, true }
func (r *roBS) Keys() ([]cid.Cid, error, bool) {
	var asyncErr error
	ctx := blockstore.WithAsyncErrorHandler(bg, func(e error) { asyncErr = e })
	ch, err := r.b.AllKeysChan(ctx)
	if err != nil {
		return nil, err, true
	}
	var out []cid.Cid
	for c := range ch {
		out = append(out, c)
	}
	return out, asyncErr, true
}

// keysOverlapping: a second listing is requested and drained while the first one is one key in
func (r *roBS) keysOverlapping() ([]cid.Cid, []cid.Cid, error) {
	ch1, err := r.b.AllKeysChan(bg)
	if err != nil {
		return nil, nil, err
	}
	var k1, k2 []cid.Cid
	if c, ok := <-ch1; ok {
		k1 = append(k1, c)
	}
	ch2, err := r.b.AllKeysChan(bg)
	if err != nil {
		for range ch1 {
		}
		return nil, nil, err
	}
	for c := range ch2 {
		k2 = append(k2, c)
	}
	for c := range ch1 {
		k1 = append(k1, c)
	}
	return k1, k2, nil
}
func (r *roBS) Roots() ([]cid.Cid, error) { return r.b.Roots() }
func (r *roBS) Close()                    { r.b.Close() }

type roSC struct{ s storage.ReadableCar }

func (r *roSC) Has(c cid.Cid) (bool, error) { return r.s.Has(bg, c.KeyString()) }
func (r *roSC) Get(c cid.Cid) ([]byte, error) {
	a, err := r.s.Get(bg, c.KeyString())
	if err != nil {
		return nil, err
	}
	rc, err := r.s.GetStream(bg, c.KeyString())
	if err != nil {
		return nil, fmt.Errorf("harness: Get ok but GetStream failed: %w", err)
	}
	b, _ := io.ReadAll(rc)
	if !bytes.Equal(a, b) {
		return nil, fmt.Errorf("harness: Get and GetStream disagree")
	}
	return a, nil
}
func (r *roSC) Size(c cid.Cid) (int, error, bool) { return 0, nil, false }
func (r *roSC) Keys() ([]cid.Cid, error, bool)    { return nil, nil, false }
func (r *roSC) Roots() ([]cid.Cid, error)         { return r.s.Roots(), nil }
func (r *roSC) Close()                            {}

func runRoCase(x *acCtx, c *acCase) {
	file := c.A.build()
	roLimitRefused(x, c, file)
	path := filepath.Join(x.dir, "ro.car")
	os.WriteFile(path, file, 0o644)
	defer os.Remove(path)
	payload := c.A.payload()
	for _, whole := range []bool{false, true} {
		for _, ident := range []bool{false, true} {
			name := fmt.Sprintf("w%di%d", b2i(whole), b2i(ident))
			ans := c.Ro[name]
			opts := []carv2.Option{carv2.UseWholeCIDs(whole), carv2.StoreIdentityCIDs(ident)}
			if c.A.Npad > 0 {
				opts = append(opts, carv2.ZeroLengthSectionAsEOF(true))
			}
			if !ident {
				// identity CIDs that are not indexed are not subject to the index CID size limit:
				// the tightest limit that admits every other CID of the archive must change nothing
				lim := 1
				for _, id := range c.A.Secs {
					if q := alphaByID[id].Cid; !isIdentityCid(q) && q.ByteLen() > lim {
						lim = q.ByteLen()
					}
				}
				opts = append(opts, carv2.MaxIndexCidSize(uint64(lim)))
			}
			// the tightest section size limit that admits every section of the archive (a limit counts the CID and
			// the data, not the length prefix) must change nothing, for lookups as for scans
			maxBody := 1
			for _, id := range c.A.Secs {
				if n := alphaByID[id].Cid.ByteLen() + len(alphaByID[id].Data); n > maxBody {
					maxBody = n
				}
			}
			opts = append(opts, carv2.MaxAllowedSectionSize(uint64(maxBody)))
			// supplied index variants: none, or a generated index of either codec over the payload
			for _, sup := range []string{"none", "sup-sorted", "sup-mh"} {
				var supIdx index.Index
				ixIdent := ident
				if sup != "none" {
					o2 := []carv2.Option{carv2.StoreIdentityCIDs(ident)}
					if c.A.Npad > 0 {
						o2 = append(o2, carv2.ZeroLengthSectionAsEOF(true))
					}
					if sup == "sup-sorted" {
						o2 = append(o2, carv2.UseIndexCodec(multicodec.CarIndexSorted))
					}
					var err error
					supIdx, err = carv2.GenerateIndex(bytes.NewReader(payload), o2...)
					if err != nil {
						x.rep.inconclusive("cannot build supplied index: " + err.Error())
						continue
					}
				} else if c.A.Ver == 2 && c.A.Idx != "none" {
					ixIdent = c.A.Full
				}
				fronts := []string{"blockstore.NewReadOnly", "blockstore.OpenReadOnly", "storage.OpenReadable", "storage.OpenReadable(ReaderAt-only)", "blockstore.NewReadOnly(used reader)", "storage.OpenReadable(used reader)"}
				for _, fr := range fronts {
					if sup != "none" && fr != "blockstore.NewReadOnly" {
						continue
					}
					var f roFront
					var err error
					switch fr {
					case "blockstore.NewReadOnly":
						var b *blockstore.ReadOnly
						b, err = blockstore.NewReadOnly(&readerAtOnly{bytes.NewReader(file)}, supIdx, opts...)
						if err == nil {
							f = &roBS{b}
						}
					case "blockstore.OpenReadOnly":
						var b *blockstore.ReadOnly
						b, err = blockstore.OpenReadOnly(path, opts...)
						if err == nil {
							f = &roBS{b}
						}
					case "blockstore.NewReadOnly(used reader)", "storage.OpenReadable(used reader)":
						// an io.ReaderAt is positional: a source that is also a reader, and has been read from before, is the same archive
						used := bytes.NewReader(file)
						used.Seek(int64(len(file)/2+1), io.SeekStart)
						if fr == "blockstore.NewReadOnly(used reader)" {
							var b *blockstore.ReadOnly
							b, err = blockstore.NewReadOnly(used, nil, opts...)
							if err == nil {
								f = &roBS{b}
							}
						} else {
							var s storage.ReadableCar
							s, err = storage.OpenReadable(used, opts...)
							if err == nil {
								f = &roSC{s}
							}
						}
					case "storage.OpenReadable(ReaderAt-only)": // sequential reads go through the library's own adapter
						var s storage.ReadableCar
						s, err = storage.OpenReadable(&readerAtOnly{bytes.NewReader(file)}, opts...)
						if err == nil {
							f = &roSC{s}
						}
					default:
						var s storage.ReadableCar
						s, err = storage.OpenReadable(bytes.NewReader(file), opts...)
						if err == nil {
							f = &roSC{s}
						}
					}
					tag := fmt.Sprintf("%s/%s/%s", fr, name, sup)
					x.rep.eval(canon(c.A)+tag, len(c.Scan) > 1)
					if err != nil {
						x.viol("readonly/open-error/"+fr, c, tag+": opening a valid archive failed: "+err.Error(), map[string]any{"mode": "ro"})
						continue
					}
					m := checkRoFront(c, f, ans, ixIdent, whole)
					if rb, ok := f.(*roBS); ok && m == "" && sup == "none" {
						m = roRefusesWrites(rb.b, path, file, fr == "blockstore.OpenReadOnly")
					}
					f.Close()
					if m != "" {
						x.viol("readonly/answers/"+fr, c, tag+": "+m, map[string]any{"mode": "ro"})
					}
				}
			}
		}
	}
}

// roRefusesWrites: a read-only blockstore refuses every write without touching the file; once closed it
// answers no lookup of a non-identity key.
func roRefusesWrites(b *blockstore.ReadOnly, path string, file []byte, onDisk bool) string {
	blk := mkBlock(alphaByID["b2"])
	if err := b.Put(bg, blk); err == nil {
		return "Put on a read-only blockstore returned nil"
	}
	if err := b.PutMany(bg, []blocks.Block{blk}); err == nil {
		return "PutMany on a read-only blockstore returned nil"
	}
	if err := b.DeleteBlock(bg, blk.Cid()); err == nil {
		return "DeleteBlock on a read-only blockstore returned nil"
	}
	if onDisk {
		if now, err := os.ReadFile(path); err != nil || !bytes.Equal(now, file) {
			return "refused writes changed the file of a read-only blockstore"
		}
	}
	if err := b.Close(); err != nil {
		return "Close of a read-only blockstore failed: " + err.Error()
	}
	q := alphaByID["b1"].Cid
	if _, err := b.Has(bg, q); err == nil {
		return "Has on a closed read-only blockstore returned a result"
	}
	if _, err := b.Get(bg, q); err == nil {
		return "Get on a closed read-only blockstore returned a result"
	}
	if _, err := b.GetSize(bg, q); err == nil {
		return "GetSize on a closed read-only blockstore returned a result"
	}
	if _, err := b.AllKeysChan(bg); err == nil {
		return "AllKeysChan on a closed read-only blockstore returned a channel"
	}
	return ""
}

// roLimitRefused: when the opener has to generate the index (CARv1, index-less CARv2) and MaxIndexCidSize is below the
// length of a CID that would be indexed, opening fails with ErrCidTooLarge -- as GenerateIndex does (C03).
func roLimitRefused(x *acCtx, c *acCase, file []byte) {
	if c.A.Ver == 2 && c.A.Idx != "none" {
		return
	}
	maxCid := 0
	for _, id := range c.A.Secs {
		if q := alphaByID[id].Cid; !isIdentityCid(q) && q.ByteLen() > maxCid {
			maxCid = q.ByteLen()
		}
	}
	if maxCid < 2 {
		return
	}
	opts := []carv2.Option{carv2.MaxIndexCidSize(uint64(maxCid - 1))}
	if c.A.Npad > 0 {
		opts = append(opts, carv2.ZeroLengthSectionAsEOF(true))
	}
	x.rep.eval(canon(c.A)+"ro-limit", true)
	var tl *carv2.ErrCidTooLarge
	if b, err := blockstore.NewReadOnly(&readerAtOnly{bytes.NewReader(file)}, nil, opts...); !errors.As(err, &tl) {
		if err == nil {
			b.Close()
		}
		x.viol("readonly/limit-not-enforced/blockstore.NewReadOnly", c, fmt.Sprintf("MaxIndexCidSize=%d below a %d-byte CID: opening returned %v, index generation refuses with ErrCidTooLarge", maxCid-1, maxCid, err), map[string]any{"mode": "ro"})
	}
	if _, err := storage.OpenReadable(bytes.NewReader(file), opts...); !errors.As(err, &tl) {
		x.viol("readonly/limit-not-enforced/storage.OpenReadable", c, fmt.Sprintf("MaxIndexCidSize=%d below a %d-byte CID: opening returned %v, index generation refuses with ErrCidTooLarge", maxCid-1, maxCid, err), map[string]any{"mode": "ro"})
	}
}

func b2i(b bool) int {
	if b {
		return 1
	}
	return 0
}

func checkRoFront(c *acCase, f roFront, ans map[string]struct {
	HasIx  []string `json:"has_ix"`
	GetIx  []string `json:"get_ix"`
	HasNix []string `json:"has_nix"`
	GetNix []string `json:"get_nix"`
}, ixIdent, whole bool) string {
	ids := make([]string, 0, len(ans))
	for id := range ans {
		ids = append(ids, id)
	}
	sort.Strings(ids)
	for _, id := range ids {
		a := ans[id]
		hasAllowed, getAllowed := a.HasIx, a.GetIx
		if !ixIdent {
			hasAllowed, getAllowed = a.HasNix, a.GetNix
		}
		q := alphaByID[id].Cid
		has, err := f.Has(q)
		v := "err"
		if err == nil {
			v = fmt.Sprint(has)
		}
		if !inList(hasAllowed, v) {
			return fmt.Sprintf("Has(%s)=%s (err=%v), a scan says %v", id, v, err, hasAllowed)
		}
		data, err := f.Get(q)
		g := obsValue(err, "")
		if err == nil {
			g = dataID(data)
		}
		if !inList(getAllowed, g) {
			return fmt.Sprintf("Get(%s)=%s (err=%v), a scan says %v", id, g, err, getAllowed)
		}
		// Has and Get must agree with each other
		if err == nil && v == "false" {
			return fmt.Sprintf("Has(%s)=false but Get succeeds", id)
		}
		if n, err, ok := f.Size(q); ok {
			if err == nil {
				// size of one of the allowed data values (identity: digest length)
				okSize := false
				for _, d := range getAllowed {
					if bs, ok := dataByID[d]; ok && len(bs) == n {
						okSize = true
					}
				}
				if isIdentityCid(q) {
					dm, _ := mh.Decode(q.Hash())
					if n == len(dm.Digest) {
						okSize = true
					}
				}
				if !okSize {
					return fmt.Sprintf("GetSize(%s)=%d, a scan says data is one of %v", id, n, getAllowed)
				}
			} else if !isNotFound(err) || !inList(getAllowed, "notfound") {
				return fmt.Sprintf("GetSize(%s) failed with %v, a scan says %v", id, err, getAllowed)
			}
		}
	}
	if keys, err, ok := f.Keys(); ok {
		if err != nil {
			return "AllKeysChan failed: " + err.Error()
		}
		if len(keys) != len(c.Scan) {
			return fmt.Sprintf("AllKeysChan listed %d keys, the scan has %d sections", len(keys), len(c.Scan))
		}
		for i, s := range c.Scan {
			want := alphaByID[s.B].Cid
			if !whole {
				want = cid.NewCidV1(cid.Raw, want.Hash())
			}
			if !keys[i].Equals(want) {
				return fmt.Sprintf("AllKeysChan key %d = %s, scan order says %s (%s)", i, keys[i], want, s.B)
			}
		}
		if rb, ok := f.(*roBS); ok && len(keys) >= 2 {
			k1, k2, err := rb.keysOverlapping()
			if err != nil {
				return "overlapping AllKeysChan failed: " + err.Error()
			}
			if fmt.Sprint(k1) != fmt.Sprint(keys) || fmt.Sprint(k2) != fmt.Sprint(keys) {
				return fmt.Sprintf("two overlapping key listings returned %d and %d keys, a single listing %d: listings are not independent", len(k1), len(k2), len(keys))
			}
		}
	}
	roots, err := f.Roots()
	if err != nil {
		return "Roots failed: " + err.Error()
	}
	want := c.A.rootCids()
	if len(roots) != len(want) {
		return fmt.Sprintf("Roots: %d, want %d", len(roots), len(want))
	}
	for i := range want {
		if !roots[i].Equals(want[i]) {
			return fmt.Sprintf("Roots[%d]=%s want %s", i, roots[i], want[i])
		}
	}
	return ""
}

// ---- C13 ---------------------------------------------------------------------------------

func statsMismatch(c *acCase, st carv2.Stats) string {
	w := c.Stats
	if int(st.Version) != w.Version {
		return fmt.Sprintf("Version %d want %d", st.Version, w.Version)
	}
	wr := idsToCids(w.Roots)
	if len(st.Roots) != len(wr) {
		return fmt.Sprintf("%d roots want %d", len(st.Roots), len(wr))
	}
	for i := range wr {
		if !st.Roots[i].Equals(wr[i]) {
			return fmt.Sprintf("root %d differs", i)
		}
	}
	type kv struct {
		n    string
		g, w uint64
	}
	for _, p := range []kv{{"BlockCount", st.BlockCount, w.Count}, {"MinCidLength", st.MinCidLength, w.MinCid}, {"MaxCidLength", st.MaxCidLength, w.MaxCid},
		{"AvgCidLength", st.AvgCidLength, w.AvgCid}, {"MinBlockLength", st.MinBlockLength, w.MinBlk}, {"MaxBlockLength", st.MaxBlockLength, w.MaxBlk},
		{"AvgBlockLength", st.AvgBlockLength, w.AvgBlk}, {"Header.DataOffset", st.Header.DataOffset, w.DataOff}, {"Header.DataSize", st.Header.DataSize, w.DataSize},
		{"Header.IndexOffset", st.Header.IndexOffset, w.IdxOff}} {
		if p.g != p.w {
			return fmt.Sprintf("%s = %d, specification says %d", p.n, p.g, p.w)
		}
	}
	if st.RootsPresent != w.RootsPresent {
		return fmt.Sprintf("RootsPresent = %v, specification says %v", st.RootsPresent, w.RootsPresent)
	}
	if len(st.CodecCounts) != len(w.Codecs) || len(st.MhTypeCounts) != len(w.Hashes) {
		return fmt.Sprintf("codec/hash count tables have %d/%d entries, specification says %d/%d", len(st.CodecCounts), len(st.MhTypeCounts), len(w.Codecs), len(w.Hashes))
	}
	for k, v := range w.Codecs {
		var code uint64
		fmt.Sscan(k, &code)
		if st.CodecCounts[multicodec.Code(code)] != uint64(v) {
			return fmt.Sprintf("CodecCounts[%s] = %d, specification says %d", k, st.CodecCounts[multicodec.Code(code)], v)
		}
	}
	for k, v := range w.Hashes {
		var code uint64
		fmt.Sscan(k, &code)
		if st.MhTypeCounts[multicodec.Code(code)] != uint64(v) {
			return fmt.Sprintf("MhTypeCounts[%s] = %d, specification says %d", k, st.MhTypeCounts[multicodec.Code(code)], v)
		}
	}
	wantCodec := multicodec.Code(0)
	switch w.IdxCodec {
	case "sorted":
		wantCodec = multicodec.CarIndexSorted
	case "mh":
		wantCodec = multicodec.CarMultihashIndexSorted
	}
	if st.IndexCodec != wantCodec {
		return fmt.Sprintf("IndexCodec = %v, specification says %v", st.IndexCodec, wantCodec)
	}
	if st.Header.Characteristics.IsFullyIndexed() != (c.A.Ver == 2 && c.A.Full) {
		return "fully-indexed characteristic differs"
	}
	return ""
}

// verifyingScan: does a hash-verifying BlockReader scan of all blocks succeed?
func verifyingScan(file []byte, opts ...carv2.Option) (n int, err error) {
	br, err := carv2.NewBlockReader(bytes.NewReader(file), opts...)
	if err != nil {
		return 0, err
	}
	for {
		_, err := br.Next()
		if err == io.EOF {
			return n, nil
		}
		if err != nil {
			return n, err
		}
		n++
	}
}

func runStatsCase(x *acCtx, c *acCase) {
	file := c.A.build()
	for _, zero := range []bool{false, true} {
		opts := []carv2.Option{carv2.ZeroLengthSectionAsEOF(zero)}
		for _, validate := range []bool{true, false} {
			tag := fmt.Sprintf("inspect(validate=%v,zeroEOF=%v)", validate, zero)
			x.rep.eval(canon(c.A)+tag, len(c.Scan) > 0)
			rd, err := carv2.NewReader(bytes.NewReader(file), opts...)
			if err != nil {
				x.viol("inspect/newreader", c, "NewReader rejects a valid archive: "+err.Error(), map[string]any{"mode": "stats"})
				continue
			}
			st, ierr := rd.Inspect(validate)
			_, serr := verifyingScan(file, opts...)
			if c.Verif != nil && !*c.Verif {
				// a block that does not (or cannot be shown to) hash to its CID: the scan fails, full validation
				// fails with it, and inspection without validation reports the statistics as usual
				if c.A.Npad > 0 && !zero {
					continue
				}
				if serr == nil {
					x.viol("inspect/scan-accepts-unverifiable", c, tag+": a verifying scan accepts a block whose hash cannot be checked", map[string]any{"mode": "stats"})
				}
				if validate {
					if ierr == nil {
						x.viol("inspect/iff-scan", c, fmt.Sprintf("%s: Inspect err=%v but verifying scan err=%v", tag, ierr, serr), map[string]any{"mode": "stats"})
					}
					continue
				}
				if ierr != nil {
					x.viol("inspect/error-without-validation", c, tag+": "+ierr.Error(), map[string]any{"mode": "stats"})
				} else if m := statsMismatch(c, st); m != "" {
					x.viol("inspect/stats", c, tag+": "+m, map[string]any{"mode": "stats"})
				}
				continue
			}
			if (ierr == nil) != (serr == nil) {
				x.viol("inspect/iff-scan", c, fmt.Sprintf("%s: Inspect err=%v but verifying scan err=%v", tag, ierr, serr), map[string]any{"mode": "stats"})
				continue
			}
			if c.A.Npad > 0 && !zero {
				if ierr == nil {
					x.viol("inspect/null-padding-accepted", c, tag+": null padding accepted without ZeroLengthSectionAsEOF", map[string]any{"mode": "stats"})
				}
				continue
			}
			if ierr != nil {
				x.viol("inspect/error-on-valid", c, tag+": "+ierr.Error(), map[string]any{"mode": "stats"})
				continue
			}
			if m := statsMismatch(c, st); m != "" {
				x.viol("inspect/stats", c, tag+": "+m, map[string]any{"mode": "stats"})
			}
		}
	}
}

// runStatsCli: the CLI's inspection (cmd/car/lib InspectCar, what `car inspect --full` runs; it always reads with
// ZeroLengthSectionAsEOF) succeeds iff a verifying scan under that option does, and reports the same figures.
func runStatsCli(x *acCtx, c *acCase) {
	file := c.A.build()
	path := filepath.Join(x.dir, "insp.car")
	if err := os.WriteFile(path, file, 0o644); err != nil {
		x.rep.inconclusive("cannot write " + path + ": " + err.Error())
		return
	}
	defer os.Remove(path)
	for _, full := range []bool{true, false} {
		f, err := os.Open(path)
		if err != nil {
			x.rep.inconclusive(err.Error())
			return
		}
		rep, ierr := carlib.InspectCar(f, full)
		f.Close()
		tag := fmt.Sprintf("lib.InspectCar(full=%v)", full)
		x.rep.eval(canon(c.A)+tag, len(c.Scan) > 0)
		verifies := c.Verif == nil || *c.Verif
		wantOK := verifies || !full
		if (ierr == nil) != wantOK {
			x.viol("inspect/cli/iff-scan", c, fmt.Sprintf("%s: err=%v, a verifying scan with ZeroLengthSectionAsEOF %s", tag, ierr, map[bool]string{true: "succeeds", false: "fails"}[verifies]), map[string]any{"mode": "stats"})
			continue
		}
		if ierr != nil {
			continue
		}
		w := c.Stats
		if rep.Version != w.Version || rep.BlockCount != w.Count || len(rep.Roots) != len(w.Roots) || rep.RootsPresent != w.RootsPresent ||
			rep.BlkLength.Min != w.MinBlk || rep.BlkLength.Max != w.MaxBlk || rep.BlkLength.Mean != w.AvgBlk ||
			rep.CidLength.Min != w.MinCid || rep.CidLength.Max != w.MaxCid || rep.CidLength.Mean != w.AvgCid {
			x.viol("inspect/cli/stats", c, fmt.Sprintf("%s reports version %d, %d blocks, %d roots (present %v), block lengths %v, CID lengths %v; specification says %d, %d, %d (%v), %d/%d/%d, %d/%d/%d",
				tag, rep.Version, rep.BlockCount, len(rep.Roots), rep.RootsPresent, rep.BlkLength, rep.CidLength,
				w.Version, w.Count, len(w.Roots), w.RootsPresent, w.MinBlk, w.AvgBlk, w.MaxBlk, w.MinCid, w.AvgCid, w.MaxCid), map[string]any{"mode": "stats"})
		}
	}
}

// runStatsLimits: "x size limits" -- under any MaxAllowedSectionSize / MaxAllowedHeaderSize, full inspection
// succeeds iff the verifying scan under the same options does; the limits sit on and next to the largest
// section body and the header body of the archive.
func runStatsLimits(x *acCtx, c *acCase) {
	if c.A.Npad > 0 {
		return
	}
	file := c.A.build()
	hdrBody := len(refHeaderBody(c.A.rootCids(), 1))
	maxBody := 0
	for _, id := range c.A.Secs {
		b := alphaByID[id]
		if n := len(b.Cid.Bytes()) + len(b.Data); n > maxBody {
			maxBody = n
		}
	}
	var sets [][2]int // {section limit, header limit}; 0 = default
	if maxBody > 1 {
		sets = append(sets, [2]int{maxBody - 1, 0}, [2]int{maxBody, hdrBody}, [2]int{maxBody - 1, maxBody + hdrBody})
	}
	sets = append(sets, [2]int{0, hdrBody - 1})
	if maxBody > hdrBody {
		sets = append(sets, [2]int{0, hdrBody}, [2]int{maxBody, maxBody - 1})
	}
	for _, l := range sets {
		var opts []carv2.Option
		if l[0] > 0 {
			opts = append(opts, carv2.MaxAllowedSectionSize(uint64(l[0])))
		}
		if l[1] > 0 {
			opts = append(opts, carv2.MaxAllowedHeaderSize(uint64(l[1])))
		}
		tag := fmt.Sprintf("inspect(section limit %d, header limit %d; largest section body %d, header body %d)", l[0], l[1], maxBody, hdrBody)
		x.rep.eval(canon(c.A)+tag, true)
		_, serr := verifyingScan(file, opts...)
		rd, err := carv2.NewReader(bytes.NewReader(file), opts...)
		var ierr error
		if err != nil {
			ierr = err
		} else {
			_, ierr = rd.Inspect(true)
		}
		if (ierr == nil) != (serr == nil) {
			x.viol("inspect/iff-scan/limits", c, fmt.Sprintf("%s: Inspect err=%v but verifying scan err=%v", tag, ierr, serr), map[string]any{"mode": "stats"})
		}
	}
}

// runStatsIndexDamage: "when the header claims an index, its codec is readable".
func runStatsIndexDamage(x *acCtx, c *acCase) {
	if c.A.Ver != 2 || c.A.Idx == "none" || c.A.Npad > 0 {
		return
	}
	file := c.A.build()
	idxOff := c.Layout.IdxOff
	cases := []struct {
		name string
		tail []byte
		ok   bool
		code uint64
	}{
		{"codec-missing", []byte{}, false, 0},
		{"codec-truncated-varint", []byte{0x80}, false, 0},
		{"codec-overflowing-varint", []byte{0xff, 0xff, 0xff, 0xff, 0xff, 0xff, 0xff, 0xff, 0xff, 0xff, 0x01}, false, 0},
		{"codec-non-minimal-varint", []byte{0x81, 0x88, 0x00}, false, 0},
		{"codec-readable-rest-garbage", []byte{0x81, 0x08, 0xde, 0xad}, true, 0x0401},
		{"codec-unknown-but-canonical", []byte{0x01}, true, 1},
	}
	for _, k := range cases {
		mut := append(append([]byte{}, file[:idxOff]...), k.tail...)
		rd, err := carv2.NewReader(bytes.NewReader(mut))
		x.rep.eval(canon(c.A)+k.name, true)
		if err != nil {
			continue // not accepted as a container: nothing is claimed
		}
		st, err := rd.Inspect(true)
		if k.ok && err != nil {
			x.viol("inspect/index-codec/"+k.name, c, "Inspect(true) fails although the payload scans and the index codec is readable: "+err.Error(), map[string]any{"mode": "stats"})
		}
		if !k.ok && err == nil {
			x.viol("inspect/index-codec/"+k.name, c, fmt.Sprintf("Inspect(true) succeeds (IndexCodec=%v) although the claimed index has no readable codec", st.IndexCodec), map[string]any{"mode": "stats"})
		}
		if k.ok && err == nil && uint64(st.IndexCodec) != k.code {
			x.viol("inspect/index-codec/"+k.name, c, fmt.Sprintf("IndexCodec=%v, bytes say %#x", st.IndexCodec, k.code), map[string]any{"mode": "stats"})
		}
	}
}

// runStatsIndexMoved: a header whose IndexOffset was corrupted to point somewhere else still "claims
// an index": the codec is whatever canonical varint sits there, or inspection must fail.
func runStatsIndexMoved(x *acCtx, c *acCase) {
	if c.A.Ver != 2 || c.A.Npad > 0 {
		return
	}
	file := c.A.build()
	L := c.Layout
	seen := map[int]bool{}
	for _, off := range []int{1, 11, 30, L.DataOff, L.DataOff + 1, L.DataOff + L.HeaderLen, L.DataOff + L.HeaderLen + 2, L.DataOff + L.DataSize/2,
		L.DataOff + L.DataSize - 1, L.DataOff + L.DataSize, len(file) - 1, len(file), len(file) + 7} {
		if off <= 0 || seen[off] {
			continue
		}
		seen[off] = true
		mut := append([]byte{}, file...)
		binary.LittleEndian.PutUint64(mut[43:], uint64(off))
		name := fmt.Sprintf("index-offset-moved-to-%d", off)
		rd, err := carv2.NewReader(bytes.NewReader(mut))
		x.rep.eval(canon(c.A)+name, true)
		if err != nil {
			continue // not accepted as a container: nothing is claimed
		}
		okRef, code := false, uint64(0)
		if off < len(mut) {
			if v, n := getUvarint(mut[off:]); n > 0 && n <= 9 && len(putUvarint(v)) == n {
				okRef, code = true, v
			}
		}
		st, err := rd.Inspect(true)
		switch {
		case okRef && err != nil:
			x.viol("inspect/index-codec/moved", c, fmt.Sprintf("%s: Inspect(true) fails although the payload scans and a codec (%#x) is readable at the claimed index offset: %v", name, code, err), map[string]any{"mode": "stats"})
		case !okRef && err == nil:
			x.viol("inspect/index-codec/moved", c, fmt.Sprintf("%s: Inspect(true) succeeds (IndexCodec=%v) although no codec is readable at the claimed index offset", name, st.IndexCodec), map[string]any{"mode": "stats"})
		case okRef && uint64(st.IndexCodec) != code:
			x.viol("inspect/index-codec/moved", c, fmt.Sprintf("%s: IndexCodec=%#x, the bytes at the claimed index offset say %#x", name, uint64(st.IndexCodec), code), map[string]any{"mode": "stats"})
		}
	}
}

// ---- C01 read side -------------------------------------------------------------------------

func seqMismatch(c *acCase, roots []cid.Cid, blks []blocks.Block, checkRoots bool) string {
	if checkRoots {
		want := c.A.rootCids()
		if len(roots) != len(want) {
			return fmt.Sprintf("%d roots, want %d", len(roots), len(want))
		}
		for i := range want {
			if !roots[i].Equals(want[i]) {
				return fmt.Sprintf("root %d = %s want %s", i, roots[i], want[i])
			}
		}
	}
	if len(blks) != len(c.Scan) {
		return fmt.Sprintf("%d blocks, the archive has %d sections", len(blks), len(c.Scan))
	}
	for i, s := range c.Scan {
		b := alphaByID[s.B]
		if !blks[i].Cid().Equals(b.Cid) || !bytes.Equal(blks[i].RawData(), b.Data) {
			return fmt.Sprintf("block %d is %s/%d bytes, want %s (%s)/%d bytes", i, blks[i].Cid(), len(blks[i].RawData()), b.Cid, b.ID, len(b.Data))
		}
	}
	return ""
}

// readAllWith runs one sequential reader kind over file/payload. It returns roots, blocks, error.
func readAllWith(kind string, file, payload []byte, zero bool) ([]cid.Cid, []blocks.Block, error) {
	var out []blocks.Block
	switch kind {
	case "v2.BlockReader":
		br, err := carv2.NewBlockReader(bytes.NewReader(file), carv2.ZeroLengthSectionAsEOF(zero))
		if err != nil {
			return nil, nil, err
		}
		for {
			b, err := br.Next()
			if err == io.EOF {
				return br.Roots, out, nil
			}
			if err != nil {
				return br.Roots, out, err
			}
			out = append(out, b)
		}
	case "v2.BlockReader(plain io.Reader)":
		br, err := carv2.NewBlockReader(&plainReader{bytes.NewReader(file)}, carv2.ZeroLengthSectionAsEOF(zero))
		if err != nil {
			return nil, nil, err
		}
		for {
			b, err := br.Next()
			if err == io.EOF {
				return br.Roots, out, nil
			}
			if err != nil {
				return br.Roots, out, err
			}
			out = append(out, b)
		}
	case "root.CarReader":
		cr, err := carv1root.NewCarReaderWithOptions(bytes.NewReader(payload), carv1root.WithErrorOnEmptyRoots(false))
		if err != nil {
			return nil, nil, err
		}
		for {
			b, err := cr.Next()
			if err == io.EOF {
				return cr.Header.Roots, out, nil
			}
			if err != nil {
				return cr.Header.Roots, out, err
			}
			out = append(out, b)
		}
	case "root.LoadCar":
		st := &orderStore{}
		h, err := carv1root.LoadCar(bg, st, bytes.NewReader(payload))
		if err != nil {
			return nil, st.order, err
		}
		return h.Roots, st.order, nil
	case "root.LoadCar(batch)": // a store with PutMany takes the loader's batching path
		st := &batchOrderStore{}
		h, err := carv1root.LoadCar(bg, st, bytes.NewReader(payload))
		if err != nil {
			return nil, st.order, err
		}
		return h.Roots, st.order, nil
	case "internal.LoadCar(batch)":
		st := &batchOrderStore{}
		roots, err := verifexport.LoadCar(st, bytes.NewReader(payload))
		if err != nil {
			return nil, st.order, err
		}
		return roots, st.order, nil
	case "internal.CarReader":
		vr, roots, err := verifexport.NewV1Reader(bytes.NewReader(payload), zero, carv2.DefaultMaxAllowedHeaderSize, carv2.DefaultMaxAllowedSectionSize)
		if err != nil {
			return nil, nil, err
		}
		for {
			b, err := vr.Next()
			if err == io.EOF {
				return roots, out, nil
			}
			if err != nil {
				return roots, out, err
			}
			out = append(out, b)
		}
	case "internal.LoadCar":
		st := &orderStoreNoCtx{}
		roots, err := verifexport.LoadCar(st, bytes.NewReader(payload))
		if err != nil {
			return nil, st.order, err
		}
		return roots, st.order, nil
	}
	return nil, nil, fmt.Errorf("unknown reader kind %s", kind)
}

var seqReaderKinds = []string{"v2.BlockReader", "v2.BlockReader(plain io.Reader)", "root.CarReader", "root.LoadCar", "root.LoadCar(batch)", "internal.CarReader", "internal.LoadCar", "internal.LoadCar(batch)"}

func runScanCase(x *acCtx, c *acCase) {
	file := c.A.build()
	payload := c.A.payload()
	zero := c.A.Npad > 0
	for _, kind := range seqReaderKinds {
		if zero && (strings.HasPrefix(kind, "root.") || strings.HasPrefix(kind, "internal.LoadCar")) {
			continue // no zero-length option there
		}
		emptyRootsRefused := len(c.A.Roots) == 0 && (strings.HasPrefix(kind, "root.LoadCar") || strings.HasPrefix(kind, "internal."))
		roots, blks, err := readAllWith(kind, file, payload, zero)
		x.rep.eval(canon(c.A)+kind, len(c.Scan) > 1)
		if emptyRootsRefused {
			if err == nil {
				// accepting is fine too; then it must be right
				if m := seqMismatch(c, roots, blks, true); m != "" {
					x.viol("roundtrip/read/"+kind, c, kind+": "+m, map[string]any{"mode": "scan"})
				}
			}
			continue
		}
		if err != nil {
			x.viol("roundtrip/read-error/"+kind, c, kind+" fails on a valid archive: "+err.Error(), map[string]any{"mode": "scan"})
			continue
		}
		if m := seqMismatch(c, roots, blks, true); m != "" {
			x.viol("roundtrip/read/"+kind, c, kind+": "+m, map[string]any{"mode": "scan"})
		}
	}
	// v2 Reader payload window + reference decoder
	if rd, err := carv2.NewReader(bytes.NewReader(file)); err != nil {
		x.viol("roundtrip/read-error/v2.Reader", c, "NewReader: "+err.Error(), map[string]any{"mode": "scan"})
	} else {
		dr, err := rd.DataReader()
		var got []byte
		if err == nil {
			got, err = io.ReadAll(dr)
		}
		if err != nil || !bytes.Equal(got, payload) {
			x.viol("roundtrip/read/v2.Reader.DataReader", c, fmt.Sprintf("DataReader yields %d bytes (err=%v), payload is %d bytes", len(got), err, len(payload)), map[string]any{"mode": "scan"})
		}
		roots, err := rd.Roots()
		if err != nil {
			x.viol("roundtrip/read-error/v2.Reader.Roots", c, err.Error(), map[string]any{"mode": "scan"})
		} else if m := seqMismatch(&acCase{A: c.A}, roots, nil, true); m != "" {
			x.viol("roundtrip/read/v2.Reader.Roots", c, m, map[string]any{"mode": "scan"})
		}
		if int(rd.Version) != c.A.Ver {
			x.viol("roundtrip/read/v2.Reader.Version", c, fmt.Sprintf("Version %d", rd.Version), map[string]any{"mode": "scan"})
		}
		// positional reads stop at the end of the payload, whatever follows it in the file
		if d3, err := rd.DataReader(); err == nil && len(payload) >= 3 {
			buf := make([]byte, 10)
			n, rerr := d3.ReadAt(buf, int64(len(payload)-3))
			if n != 3 || rerr != io.EOF || !bytes.Equal(buf[:3], payload[len(payload)-3:]) {
				x.viol("roundtrip/read/v2.Reader.DataReader", c, fmt.Sprintf("ReadAt of 10 bytes, 3 before the end of the payload, returns %d bytes (err=%v)", n, rerr), map[string]any{"mode": "scan"})
			}
			if n2, rerr2 := d3.ReadAt(buf, int64(len(payload))); n2 != 0 || rerr2 != io.EOF {
				x.viol("roundtrip/read/v2.Reader.DataReader", c, fmt.Sprintf("ReadAt at the end of the payload returns %d bytes (err=%v)", n2, rerr2), map[string]any{"mode": "scan"})
			}
		}
		// payload readers are independent of each other and of the other calls: take one, call Roots and Inspect on a
		// fresh Reader, take a second one and read a little from it, then drain the first
		if rd2, err := carv2.NewReader(bytes.NewReader(file)); err == nil {
			d1, e1 := rd2.DataReader()
			rd2.Roots()
			d2, e2 := rd2.DataReader()
			if e1 == nil && e2 == nil {
				head := make([]byte, min(7, len(payload)))
				io.ReadFull(d2, head)
				rd2.Inspect(false)
				all, _ := io.ReadAll(d1)
				rest, _ := io.ReadAll(d2)
				if !bytes.Equal(all, payload) || !bytes.Equal(append(head, rest...), payload) {
					x.viol("roundtrip/read/v2.Reader.DataReader", c, fmt.Sprintf("two payload readers interleaved with Roots and Inspect yield %d and %d bytes, the payload has %d", len(all), len(head)+len(rest), len(payload)), map[string]any{"mode": "scan"})
				}
			}
		}
		if c.A.Ver == 2 {
			ir, err := rd.IndexReader()
			if c.A.Idx == "none" {
				if ir != nil || err != nil {
					x.viol("roundtrip/read/v2.Reader.IndexReader", c, "IndexReader not nil for an index-less archive", map[string]any{"mode": "scan"})
				}
			} else if err != nil {
				x.viol("roundtrip/read-error/v2.Reader.IndexReader", c, err.Error(), map[string]any{"mode": "scan"})
			} else {
				ib, _ := io.ReadAll(ir)
				if !bytes.Equal(ib, c.A.indexBytes()) {
					x.viol("roundtrip/read/v2.Reader.IndexReader", c, "IndexReader bytes differ from the embedded index", map[string]any{"mode": "scan"})
				}
			}
		}
	}
}

type orderStore struct{ order []blocks.Block }

func (o *orderStore) Put(_ ctxT, b blocks.Block) error { o.order = append(o.order, b); return nil }

// batchOrderStore also offers PutMany: the loaders hand it the blocks in batches; the blocks are kept as given
type batchOrderStore struct{ order []blocks.Block }

func (o *batchOrderStore) Put(_ ctxT, b blocks.Block) error { o.order = append(o.order, b); return nil }
func (o *batchOrderStore) PutMany(_ ctxT, bs []blocks.Block) error {
	o.order = append(o.order, bs...)
	return nil
}

type orderStoreNoCtx struct{ order []blocks.Block }

func (o *orderStoreNoCtx) Put(_ ctxT, b blocks.Block) error { o.order = append(o.order, b); return nil }

// ---- driver --------------------------------------------------------------------------------

func runArchiveReplay(args []string) int {
	in, out, mode := args[0], args[1], "scan"
	obsPath, archPath := "", ""
	for _, a := range args[2:] {
		if strings.HasPrefix(a, "mode=") {
			mode = a[5:]
		}
		if strings.HasPrefix(a, "obs=") {
			obsPath = a[4:]
		}
		if strings.HasPrefix(a, "arch=") {
			archPath = a[5:]
		}
	}
	if mode == "iff" { // the truncation / corruption set, evaluated for C13's iff clause only
		mode, truncIffOnly = "trunc", true
	} else if mode == "trunc" {
		cl, err := openObsFiles(obsPath, archPath)
		if err != nil {
			fmt.Fprintln(os.Stderr, err)
			return 2
		}
		defer cl()
	}
	rep := newReport("archive/" + mode)
	if mode == "scan" {
		bdir, _ := os.MkdirTemp("", "vh-big-")
		for _, v := range bigBlockCases(bdir) {
			rep.violate("roundtrip/large-block/"+v[0], "one 5 MiB block after a small one: "+v[1], map[string]any{"family": "big-block"})
		}
		os.RemoveAll(bdir)
		rep.eval("big-block", true)
		if m := rootReaderLifecycle(); m != "" {
			rep.violate("roundtrip/read/root.CarReader/lifecycle", m, map[string]any{"family": "reader-lifecycle"})
		}
		rep.eval("reader-lifecycle", true)
		for _, v := range bigLoadCases() {
			rep.violate("roundtrip/large-archive/"+v[0], fmt.Sprintf("archive of %d sections: %s", bigSections, v[1]), map[string]any{"family": "big-archive-load"})
		}
		rep.eval("big-archive-load", true)
	}
	if mode == "idx" {
		// beyond the 2^16 boundary: one archive of 70 000 sections through every index kind
		for _, v := range bigIndexCases() {
			rep.violate("index/large/"+v[0], fmt.Sprintf("archive of %d sections: %s", bigSections, v[1]), map[string]any{"family": "big-archive", "sections": bigSections})
		}
		rep.eval("big-archive", true)
		rep.count("large_archive_sections", bigSections)
	}
	jobs := make(chan []byte, 256)
	var wg sync.WaitGroup
	base := "/dev/shm"
	if _, err := os.Stat(base); err != nil {
		base = os.TempDir()
	}
	for w := 0; w < runtime.NumCPU(); w++ {
		wg.Add(1)
		go func() {
			defer wg.Done()
			dir, _ := os.MkdirTemp(base, "vh-ac-")
			defer os.RemoveAll(dir)
			x := &acCtx{dir: dir, rep: rep}
			for raw := range jobs {
				var c acCase
				if err := json.Unmarshal(raw, &c); err != nil {
					rep.inconclusive("bad record: " + err.Error())
					continue
				}
				func() {
					defer func() {
						if r := recover(); r != nil {
							x.viol("panic/"+mode, &c, fmt.Sprint(r), map[string]any{"mode": mode})
						}
					}()
					switch mode {
					case "idx":
						runIdxCase(x, &c)
					case "ro":
						runRoCase(x, &c)
					case "stats":
						runStatsCase(x, &c)
						runStatsCli(x, &c)
						if c.Verif != nil && !*c.Verif {
							break // the damage / limit variations below start from an archive that verifies
						}
						runStatsIndexDamage(x, &c)
						runStatsIndexMoved(x, &c)
						runStatsLimits(x, &c)
					case "scan":
						runScanCase(x, &c)
						runWriteCase(x, &c)
					case "trunc":
						runTruncCase(x, &c)
					}
				}()
				rep.count("archives", 1)
				if len(c.Scan) >= 2 {
					rep.sample(map[string]any{"archive": c.A}, 8)
				}
			}
		}()
	}
	err := readTLCRecords(in, func(raw []byte) error {
		jobs <- append([]byte{}, raw...)
		return nil
	})
	close(jobs)
	wg.Wait()
	if err != nil {
		rep.inconclusive(err.Error())
	}
	rep.write(out)
	if len(rep.ViolClasses) > 0 {
		return 1
	}
	if len(rep.Inconcl) > 0 {
		return 2
	}
	return 0
}
