package main

// Replay of the Store.tla state graph (C04, C05, C12) into the real
// blockstore.ReadWrite and storage.StorageCar.
//
// TLC prints one record per reachable abstract state: the state, the allowed observation
// table, the description of the file and the outgoing transition relation
// (op -> alternatives [res, next]).  The replayer walks op sequences through that graph
// on a fresh real store, projects the real object back to an abstract state after every
// step (sections decoded from the file bytes by the reference decoder, closed-ness by a
// probe) and requires that some alternative admits what was observed.

import (
	"bytes"
	"context"
	"encoding/json"
	"errors"
	"fmt"
	"io"
	"math/rand"
	"os"
	"path/filepath"
	"sort"
	"strings"
	"sync"
	"sync/atomic"

	blocks "github.com/ipfs/go-block-format"
	"github.com/ipfs/go-cid"
	carv2 "github.com/ipld/go-car/v2"
	"github.com/ipld/go-car/v2/blockstore"
	"github.com/ipld/go-car/v2/index"
	"github.com/ipld/go-car/v2/storage"
	"github.com/multiformats/go-multicodec"
	"github.com/multiformats/go-multihash"
)

type sOpts struct {
	Whole  bool   `json:"whole"`
	Dup    bool   `json:"dup"`
	Ident  bool   `json:"ident"`
	V1     bool   `json:"v1"`
	Maxcid int    `json:"maxcid"`
	Maxsec int    `json:"maxsec"` // MaxAllowedSectionSize (0: default)
	Dpad   int    `json:"dpad"`
	Ipad   int    `json:"ipad"`
	Codec  string `json:"codec"`
	Zero   bool   `json:"zero"` // ZeroLengthSectionAsEOF (crash sessions: a resume reads through null bytes)
}

type sState struct {
	O     sOpts    `json:"o"`
	Roots []string `json:"roots"`
	Secs  []string `json:"secs"`
	Phase string   `json:"phase"`
	Fin   bool     `json:"fin"`
}

func (s *sState) key() string { return canon(s) }

type sObs struct {
	Has  []string `json:"has"`
	Get  []string `json:"get"`
	Size []string `json:"size"`
}

type sAlt struct {
	Res     []string `json:"res"`
	Next    sState   `json:"next"`
	nextKey string
}

type sOp struct {
	Op  string   `json:"op"`
	B   string   `json:"b,omitempty"`
	Bs  []string `json:"bs,omitempty"`
	How string   `json:"how,omitempty"`
}

func (o sOp) String() string {
	switch o.Op {
	case "put":
		return "put(" + o.B + ")"
	case "putmany":
		return "putmany(" + strings.Join(o.Bs, ",") + ")"
	case "reopen":
		return "reopen(" + o.How + ")"
	}
	return o.Op
}

type sTrans struct {
	Op    sOp      `json:"op"`
	Kinds []string `json:"kinds"`
	Alts  []sAlt   `json:"alts"`
}

type sFile struct {
	Kind     string  `json:"kind"`
	Len      int     `json:"len"`
	DataOff  int     `json:"dataOff"`
	DataSize int     `json:"dataSize"`
	IdxOff   int     `json:"idxOff"`
	Full     bool    `json:"full"`
	Recs     [][]any `json:"recs"`
}

type sNode struct {
	S     sState          `json:"s"`
	Obs   map[string]sObs `json:"obs"`
	File  sFile           `json:"file"`
	Trans []sTrans        `json:"trans"`
	key   string
}

type sGraph struct {
	nodes map[string]*sNode
	inits []*sNode
}

func loadStoreGraph(path string) (*sGraph, error) {
	g := &sGraph{nodes: map[string]*sNode{}}
	err := readTLCRecords(path, func(raw []byte) error {
		var n sNode
		if err := json.Unmarshal(raw, &n); err != nil {
			return err
		}
		n.key = n.S.key()
		for i := range n.Trans {
			for j := range n.Trans[i].Alts {
				n.Trans[i].Alts[j].nextKey = n.Trans[i].Alts[j].Next.key()
			}
		}
		sort.Slice(n.Trans, func(i, j int) bool { return n.Trans[i].Op.String() < n.Trans[j].Op.String() })
		g.nodes[n.key] = &n
		if len(n.S.Secs) == 0 && n.S.Phase == "open" && !n.S.Fin {
			g.inits = append(g.inits, &n)
		}
		return nil
	})
	sort.Slice(g.inits, func(i, j int) bool { return g.inits[i].key < g.inits[j].key })
	return g, err
}

func (n *sNode) trans(op sOp) *sTrans {
	for i := range n.Trans {
		if n.Trans[i].Op.String() == op.String() {
			return &n.Trans[i]
		}
	}
	return nil
}

// ---- real store adapters ---------------------------------------------------------------

// "No roots" reaches the library as a nil slice every other time and as an empty one otherwise: both mean
// the same root list and must give the same header.
var noRootsFlip atomic.Uint32

func idsToCids(ids []string) []cid.Cid {
	if len(ids) == 0 && noRootsFlip.Add(1)%2 == 1 {
		return nil
	}
	out := make([]cid.Cid, 0, len(ids))
	for _, id := range ids {
		out = append(out, alphaByID[id].Cid)
	}
	return out
}

func (o sOpts) carOpts() []carv2.Option {
	opts := []carv2.Option{
		carv2.UseWholeCIDs(o.Whole), carv2.AllowDuplicatePuts(o.Dup), carv2.StoreIdentityCIDs(o.Ident),
		carv2.WriteAsCarV1(o.V1), carv2.MaxIndexCidSize(uint64(o.Maxcid)),
	}
	if o.Dpad > 0 {
		opts = append(opts, carv2.UseDataPadding(uint64(o.Dpad)))
	}
	if o.Ipad > 0 {
		opts = append(opts, carv2.UseIndexPadding(uint64(o.Ipad)))
	}
	switch o.Codec {
	case "sorted":
		opts = append(opts, carv2.UseIndexCodec(multicodec.CarIndexSorted))
	case "none":
		opts = append(opts, carv2.WithoutIndex())
	default:
		opts = append(opts, carv2.UseIndexCodec(multicodec.CarMultihashIndexSorted))
	}
	if o.Zero {
		opts = append(opts, carv2.ZeroLengthSectionAsEOF(true))
	}
	if o.Maxsec > 0 {
		opts = append(opts, carv2.MaxAllowedSectionSize(uint64(o.Maxsec)))
	}
	return opts
}

func (o sOpts) codecNum() uint64 {
	if o.Codec == "sorted" {
		return codecIndexSorted
	}
	return codecMhIndexSorted
}

type realStore interface {
	Put(b *ABlock) error
	PutMany(bs []*ABlock) error
	Finalize() error
	FinalizeRO() error
	Close() error
	Discard()
	Has(c cid.Cid) (bool, error)
	Get(c cid.Cid) ([]byte, error)
	GetSize(c cid.Cid) (int, error) // -2: not offered by this kind
	AllKeys() ([]cid.Cid, error, bool)
	Roots() ([]cid.Cid, error)
	IndexRecs() ([]string, bool) // "multihash-hex@offset" of the in-memory index (I-layer invariant IndexMatchesFile)
}

var bg = context.Background()

// f: the file when the store was opened with OpenReadWriteFile (the caller owns and closes it)
type rwStore struct {
	bs *blockstore.ReadWrite
	f  *os.File
}

var openFlip atomic.Uint64

func mkBlock(b *ABlock) blocks.Block {
	blk, err := blocks.NewBlockWithCid(b.Data, b.Cid)
	if err != nil {
		panic(err)
	}
	return blk
}
func (s *rwStore) Put(b *ABlock) error { return s.bs.Put(bg, mkBlock(b)) }
func (s *rwStore) PutMany(bs []*ABlock) error {
	var l []blocks.Block
	for _, b := range bs {
		l = append(l, mkBlock(b))
	}
	return s.bs.PutMany(bg, l)
}
func (s *rwStore) Finalize() error   { return s.bs.Finalize() }
func (s *rwStore) FinalizeRO() error { return s.bs.FinalizeReadOnly() }
func (s *rwStore) Close() error      { return s.bs.Close() }
func (s *rwStore) Discard() {
	s.bs.Discard()
	if s.f != nil {
		s.f.Close()
	}
}
func (s *rwStore) Has(c cid.Cid) (bool, error) {
	return s.bs.Has(bg, c)
}
func (s *rwStore) Get(c cid.Cid) ([]byte, error) {
	b, err := s.bs.Get(bg, c)
	if err != nil {
		return nil, err
	}
	if !b.Cid().Equals(c) {
		return nil, fmt.Errorf("harness: Get returned a block under CID %s for query %s", b.Cid(), c)
	}
	return b.RawData(), nil
}
func (s *rwStore) GetSize(c cid.Cid) (int, error) { return s.bs.GetSize(bg, c) }
func (s *rwStore) AllKeys() ([]cid.Cid, error, bool) {
	ch, err := s.bs.AllKeysChan(bg)
	if err != nil {
		return nil, err, true
	}
	var out []cid.Cid
	for c := range ch {
		out = append(out, c)
	}
	return out, nil, true
}
func (s *rwStore) Roots() ([]cid.Cid, error)   { return s.bs.Roots() }
func (s *rwStore) IndexRecs() ([]string, bool) { return iterIndex(s.bs.Index()) }

func iterIndex(ix index.Index) ([]string, bool) {
	it, ok := ix.(index.IterableIndex)
	if !ok {
		return nil, false
	}
	var out []string
	it.ForEach(func(m multihash.Multihash, off uint64) error {
		out = append(out, fmt.Sprintf("%x@%d", []byte(m), off))
		return nil
	})
	sort.Strings(out)
	return out, true
}

type scStore struct {
	sc *storage.StorageCar
	f  *os.File
}

func (s *scStore) Put(b *ABlock) error        { return s.sc.Put(bg, b.Cid.KeyString(), b.Data) }
func (s *scStore) PutMany(bs []*ABlock) error { panic("storage has no PutMany") }
func (s *scStore) Finalize() error            { return s.sc.Finalize() }
func (s *scStore) FinalizeRO() error          { panic("storage has no FinalizeReadOnly") }
func (s *scStore) Close() error               { panic("storage has no Close") }
func (s *scStore) Discard()                   { s.f.Close() }
func (s *scStore) Has(c cid.Cid) (bool, error) {
	return s.sc.Has(bg, c.KeyString())
}
func (s *scStore) Get(c cid.Cid) ([]byte, error) {
	a, err := s.sc.Get(bg, c.KeyString())
	if err != nil {
		return nil, err
	}
	// the streaming variant must agree
	rc, err2 := s.sc.GetStream(bg, c.KeyString())
	if err2 != nil {
		return nil, fmt.Errorf("harness: Get succeeded but GetStream failed: %w", err2)
	}
	b, err2 := io.ReadAll(rc)
	if err2 != nil || !bytes.Equal(a, b) {
		return nil, fmt.Errorf("harness: Get and GetStream disagree (%d vs %d bytes, %v)", len(a), len(b), err2)
	}
	return a, nil
}
func (s *scStore) GetSize(c cid.Cid) (int, error)    { return -2, nil }
func (s *scStore) AllKeys() ([]cid.Cid, error, bool) { return nil, nil, false }
func (s *scStore) Roots() ([]cid.Cid, error)         { return s.sc.Roots(), nil }
func (s *scStore) IndexRecs() ([]string, bool)       { return iterIndex(s.sc.Index()) }

func isNotFound(err error) bool {
	var nf interface{ NotFound() bool }
	if errors.As(err, &nf) {
		return nf.NotFound()
	}
	return false
}

func openReal(kind, path string, roots []string, o sOpts, resume bool) (realStore, error) {
	switch kind {
	case "blockstore":
		if openFlip.Add(1)%2 == 0 {
			// every other store is opened on a file the caller keeps (OpenReadWriteFile): same behaviour, the
			// file stays open across Finalize / Discard / Close
			f, err := os.OpenFile(path, os.O_RDWR|os.O_CREATE, 0o666)
			if err != nil {
				return nil, err
			}
			bs, err := blockstore.OpenReadWriteFile(f, idsToCids(roots), o.carOpts()...)
			if err != nil {
				f.Close()
				return nil, err
			}
			return &rwStore{bs, f}, nil
		}
		bs, err := blockstore.OpenReadWrite(path, idsToCids(roots), o.carOpts()...)
		if err != nil {
			return nil, err
		}
		return &rwStore{bs, nil}, nil
	case "storage":
		f, err := os.OpenFile(path, os.O_RDWR|os.O_CREATE, 0o644)
		if err != nil {
			return nil, err
		}
		var sc *storage.StorageCar
		if resume {
			sc, err = storage.OpenReadableWritable(f, idsToCids(roots), o.carOpts()...)
		} else {
			sc, err = storage.NewReadableWritable(f, idsToCids(roots), o.carOpts()...)
		}
		if err != nil {
			f.Close()
			return nil, err
		}
		return &scStore{sc, f}, nil
	}
	panic("kind")
}

// ---- projection ------------------------------------------------------------------------

type sProj struct {
	Recs   []string // "multihash-hex@payload offset" of every section on disk
	Secs   []string
	Fin    bool
	Closed bool
	Bytes  []byte
	Err    string // projection failure (file not decodable under the state's own options)
}

// projectFile decodes the on-disk file independently of go-car.
func projectFile(path string, o sOpts) sProj {
	var p sProj
	b, err := os.ReadFile(path)
	if err != nil {
		p.Err = "env: " + err.Error() // the harness cannot read the file: an environment fault, not an observation
		return p
	}
	p.Bytes = b
	var payload []byte
	if o.V1 {
		payload = b
	} else {
		if len(b) < 51 || !bytes.Equal(b[:11], refPragma) {
			p.Err = "no pragma"
			return p
		}
		zero := true
		for _, c := range b[11:51] {
			if c != 0 {
				zero = false
			}
		}
		if zero {
			off := 51 + o.Dpad
			if len(b) < off {
				p.Err = "short file"
				return p
			}
			payload = b[off:]
		} else {
			h, err := refParseV2(b)
			if err != nil {
				p.Err = err.Error()
				return p
			}
			p.Fin = true
			payload = h.Payload
		}
	}
	v1, err := refParseV1(payload, false)
	if err != nil {
		p.Err = err.Error()
		if v1 == nil {
			return p
		}
	}
	for _, s := range v1.Secs {
		blk := findBlock(s.Cid, s.Data)
		if blk == nil {
			p.Err = fmt.Sprintf("section with CID %s / %d data bytes is not in the alphabet", s.Cid, len(s.Data))
			return p
		}
		p.Secs = append(p.Secs, blk.ID)
		p.Recs = append(p.Recs, fmt.Sprintf("%x@%d", []byte(s.Cid.Hash()), s.Off))
	}
	sort.Strings(p.Recs)
	return p
}

// findBlock: the alphabet block with this CID and these data bytes.
func findBlock(c cid.Cid, data []byte) *ABlock {
	for _, b := range alphabet {
		if b.Cid.Equals(c) && bytes.Equal(b.Data, data) {
			return b
		}
	}
	return nil
}

func sameIDs(a, b []string) bool {
	if len(a) != len(b) {
		return false
	}
	for i := range a {
		if a[i] != b[i] {
			return false
		}
	}
	return true
}

// ---- expected file bytes (C05) -----------------------------------------------------------

func expectedFilePrefix(s *sState) []byte {
	var blks []*ABlock
	for _, id := range s.Secs {
		blks = append(blks, alphaByID[id])
	}
	payload := refBuildV1(idsToCids(s.Roots), blks)
	if s.O.V1 {
		return payload
	}
	if !s.Fin {
		out := append([]byte{}, refPragma...)
		out = append(out, make([]byte, 40+s.O.Dpad)...)
		return append(out, payload...)
	}
	// final: everything up to the index
	return refBuildV2(payload, s.O.Dpad, s.O.Ipad, []byte{}, s.O.Ident)
}

// checkFile compares the real bytes with the layout the specification gives for state s.
func checkFile(n *sNode, b []byte) string {
	s := &n.S
	want := expectedFilePrefix(s)
	f := n.File
	switch f.Kind {
	case "v1", "v2open":
		if len(b) != f.Len {
			return fmt.Sprintf("file length %d, specification says %d", len(b), f.Len)
		}
		if !bytes.Equal(b, want) {
			return "file bytes differ from pragma/zero-header/payload image of the abstract state"
		}
		return ""
	case "v2":
		h, err := refParseV2(b)
		if err != nil {
			return "final file not decodable: " + err.Error()
		}
		if int(h.DataOffset) != f.DataOff || int(h.DataSize) != f.DataSize || int(h.IndexOffset) != f.IdxOff {
			return fmt.Sprintf("header {dataOff %d dataSize %d idxOff %d}, specification says {%d %d %d}",
				h.DataOffset, h.DataSize, h.IndexOffset, f.DataOff, f.DataSize, f.IdxOff)
		}
		if h.FullyIndexed() != f.Full || h.CharLo != 0 || h.CharHi&^(1<<7) != 0 {
			return fmt.Sprintf("characteristics %x/%x, fully-indexed must be %v", h.CharHi, h.CharLo, f.Full)
		}
		if len(b) < len(want) || !bytes.Equal(b[:len(want)], want) {
			return "bytes before the index differ from pragma/header/padding/payload/padding image"
		}
		ix, err := refDecodeIndex(h.Index)
		if err != nil {
			return "embedded index not decodable: " + err.Error()
		}
		if ix.Consumed != len(h.Index) {
			return fmt.Sprintf("%d trailing bytes after the index", len(h.Index)-ix.Consumed)
		}
		if ix.Codec != s.O.codecNum() {
			return fmt.Sprintf("index codec %#x, want %#x", ix.Codec, s.O.codecNum())
		}
		if !ix.CodesAscending || !ix.WidthsAscending || !ix.DigestsAscending {
			return "index buckets/entries not in canonical ascending order"
		}
		var wantRecs []RefRec
		for _, r := range f.Recs {
			id := r[0].(string)
			off := uint64(r[1].(float64))
			wantRecs = append(wantRecs, refRecOf(alphaByID[id].Cid, off, s.O.codecNum()))
		}
		got, exp := recMultiset(ix.Recs), recMultiset(wantRecs)
		if len(got) != len(exp) {
			return fmt.Sprintf("index has %d distinct records, specification says %d", len(got), len(exp))
		}
		for k, v := range exp {
			if got[k] != v {
				return fmt.Sprintf("index record %s: count %d, specification says %d", k, got[k], v)
			}
		}
		return ""
	}
	return "unknown file kind " + f.Kind
}

// ---- the walk ----------------------------------------------------------------------------

type sPathResult struct {
	viol   *Violation
	steps  int
	amb    int
	finals int
}

func altOK(a *sAlt, res string, p *sProj) bool {
	if !inList(a.Res, res) {
		return false
	}
	nx := &a.Next
	if (nx.Phase == "closed") != p.Closed {
		return false
	}
	if p.Err != "" {
		return false
	}
	return sameIDs(nx.Secs, p.Secs) && nx.Fin == p.Fin
}

func obsValue(err error, ok string) string {
	if err == nil {
		return ok
	}
	if isNotFound(err) {
		return "notfound"
	}
	return "err"
}

// checkObs returns "" if every observation is admitted by node n.
func checkObs(g *sGraph, n *sNode, st realStore, kind string) string {
	ids := make([]string, 0, len(n.Obs))
	for id := range n.Obs {
		ids = append(ids, id)
	}
	sort.Strings(ids)
	if n.S.O.Maxsec > 0 {
		ids = nil // lookups are subject to the reader-side section limit, which the specification does not model
	}
	for _, id := range ids {
		o := n.Obs[id]
		c := alphaByID[id].Cid
		has, err := st.Has(c)
		v := "err"
		if err == nil {
			v = fmt.Sprint(has)
		}
		if !inList(o.Has, v) {
			return fmt.Sprintf("Has(%s)=%s (err=%v), allowed %v", id, v, err, o.Has)
		}
		data, err := st.Get(c)
		v = obsValue(err, "")
		if err == nil {
			v = dataID(data)
		}
		if !inList(o.Get, v) {
			return fmt.Sprintf("Get(%s)=%s (err=%v), allowed %v", id, v, err, o.Get)
		}
		sz, err := st.GetSize(c)
		if sz != -2 {
			v = obsValue(err, fmt.Sprint(sz))
			if !inList(o.Size, v) {
				return fmt.Sprintf("GetSize(%s)=%s (err=%v), allowed %v", id, v, err, o.Size)
			}
		}
	}
	if n.S.Phase != "closed" {
		keys, err, offered := st.AllKeys()
		if offered {
			if err != nil {
				return fmt.Sprintf("AllKeysChan failed on a usable store: %v", err)
			}
			want := map[string]int{}
			for _, id := range n.S.Secs {
				c := alphaByID[id].Cid
				if !n.S.O.Whole {
					c = cid.NewCidV1(cid.Raw, c.Hash())
				}
				want[c.KeyString()]++
			}
			got := map[string]int{}
			for _, c := range keys {
				got[c.KeyString()]++
			}
			if len(got) != len(want) {
				return fmt.Sprintf("AllKeysChan listed %d distinct keys, specification says %d", len(got), len(want))
			}
			for k, v := range want {
				if got[k] != v {
					return fmt.Sprintf("AllKeysChan key multiplicity %d, specification says %d", got[k], v)
				}
			}
		}
		roots, err := st.Roots()
		if err != nil {
			return fmt.Sprintf("Roots failed on a usable store: %v", err)
		}
		want := idsToCids(n.S.Roots)
		if len(roots) != len(want) {
			return fmt.Sprintf("Roots returned %d roots, want %d", len(roots), len(want))
		}
		for i := range want {
			if !roots[i].Equals(want[i]) {
				return fmt.Sprintf("Roots[%d]=%s, want %s", i, roots[i], want[i])
			}
		}
	}
	return ""
}

func reopenArgs(s *sState, how string) ([]string, sOpts) {
	roots := append([]string{}, s.Roots...)
	o := s.O
	switch how {
	case "roots_other": // b6 is never a root in any configuration
		if len(roots) == 0 {
			roots = []string{"b6"}
		} else {
			roots[len(roots)-1] = "b6"
		}
	case "roots_codec": // same multihash, other codec / CID version
		sib := map[string]string{"b1": "b2", "b2": "b1", "b3": "b1", "b4": "b17", "b13": "b2"}
		roots[len(roots)-1] = sib[roots[len(roots)-1]]
	case "roots_extra":
		roots = append(roots, "b6")
	case "roots_fewer":
		roots = roots[:len(roots)-1]
	case "dpad":
		o.Dpad++
	case "dpad_far": // the requested data offset lies beyond the end of every file of the model
		o.Dpad += 200000
	case "version":
		o.V1 = !o.V1
	}
	return roots, o
}

// isEnvFault: the failure names the harness's own scratch path or the process's resource limits.
func isEnvFault(detail, dir string) bool {
	if strings.Contains(detail, "too many open files") || strings.Contains(detail, "no space left on device") || strings.Contains(detail, "cannot allocate memory") {
		return true
	}
	return strings.Contains(detail, "no such file or directory") && strings.Contains(detail, "/vh-store-")
}

var probeCid = func() cid.Cid { return alphaByID["b6"].Cid }

// runStorePath executes one op sequence. It returns a violation or nil.
func runStorePath(g *sGraph, init *sNode, kind string, ops []sOp, dir string, rep *Report, checkC05 bool) *Violation {
	path := filepath.Join(dir, "s.car")
	os.Remove(path)
	defer os.Remove(path)
	replay := map[string]any{"family": "store", "kind": kind, "init": init.S, "ops": ops}
	mk := func(class, detail string, step int) *Violation {
		replay["failed_step"] = step
		return &Violation{Class: class, Detail: detail, Replay: replay}
	}
	st, err := openReal(kind, path, init.S.Roots, init.S.O, false)
	if err != nil {
		return mk(kind+"/open/error", "creating the store failed: "+err.Error(), -1)
	}
	defer func() {
		if st != nil {
			st.Discard()
		}
	}()
	cur := map[string]*sNode{init.key: init}
	// initial state check
	{
		p := projectFile(path, init.S.O)
		if p.Err != "" || len(p.Secs) != 0 || p.Fin {
			return mk(kind+"/open/state", fmt.Sprintf("fresh store does not project to the initial state: %+v", p.Err), -1)
		}
		if m := checkObs(g, init, st, kind); m != "" {
			return mk(kind+"/open/obs", m, -1)
		}
		if checkC05 {
			if m := checkFile(init, p.Bytes); m != "" {
				return mk(kind+"/open/file", m, -1)
			}
		}
	}
	dropped := false
	for i, op := range ops {
		if dropped && op.Op != "reopen" {
			return nil // an abandoned storage instance is not used any more
		}
		var before []byte
		res := "ok"
		var opErr error
		switch op.Op {
		case "put":
			opErr = st.Put(alphaByID[op.B])
		case "putmany":
			var bs []*ABlock
			for _, id := range op.Bs {
				bs = append(bs, alphaByID[id])
			}
			opErr = st.PutMany(bs)
		case "finalize":
			opErr = st.Finalize()
		case "finalize_ro":
			opErr = st.FinalizeRO()
		case "close":
			opErr = st.Close()
		case "discard":
			st.Discard()
			if kind == "storage" {
				dropped = true
			}
		case "reopen":
			before, _ = os.ReadFile(path)
			// any state of cur gives the same roots/options
			var s0 *sState
			for _, n := range cur {
				s0 = &n.S
			}
			roots, o := reopenArgs(s0, op.How)
			if !dropped {
				st.Discard() // release the old handle (already closed in the model)
			}
			nst, err := openReal(kind, path, roots, o, true)
			opErr = err
			if err == nil {
				st = nst
				dropped = false
			} else {
				// stay closed: keep the old (closed) instance for probing
				if kind == "storage" {
					dropped = true
				}
			}
		}
		if opErr != nil {
			res = "err"
		}
		p := projectFile(path, init.S.O)
		if strings.HasPrefix(p.Err, "env: ") {
			rep.inconclusive(fmt.Sprintf("%s step %d: %s", kind, i, p.Err))
			return nil
		}
		if dropped {
			p.Closed = true
		} else {
			_, e := st.Has(probeCid())
			p.Closed = e != nil
		}
		if op.Op == "reopen" && res == "err" {
			after, _ := os.ReadFile(path)
			if !bytes.Equal(before, after) {
				return mk(kind+"/reopen("+op.How+")/file-touched",
					fmt.Sprintf("a refused reopen changed the file (%d -> %d bytes)", len(before), len(after)), i)
			}
		}
		next := map[string]*sNode{}
		anyTrans := false
		for _, n := range cur {
			t := n.trans(op)
			if t == nil {
				continue
			}
			anyTrans = true
			for k := range t.Alts {
				a := &t.Alts[k]
				if altOK(a, res, &p) {
					if nn, ok := g.nodes[a.nextKey]; ok {
						next[a.nextKey] = nn
					}
				}
			}
		}
		if !anyTrans {
			return nil // op not enabled here: path outside the specification's graph
		}
		if len(next) == 0 {
			var exp []string
			for _, n := range cur {
				if t := n.trans(op); t != nil {
					for _, a := range t.Alts {
						exp = append(exp, fmt.Sprintf("{res %v secs %v phase %s fin %v}", a.Res, a.Next.Secs, a.Next.Phase, a.Next.Fin))
					}
				}
			}
			return mk(kind+"/"+op.Op+"/state",
				fmt.Sprintf("step %d %s: result %s (%v), file projects to secs=%v fin=%v closed=%v projErr=%q; specification allows %s",
					i, op, res, opErr, p.Secs, p.Fin, p.Closed, p.Err, strings.Join(exp, " | ")), i)
		}
		if len(next) > 1 {
			rep.count("ambiguous_steps", 1)
		}
		// observations: keep the candidates that admit them
		var lastMsg string
		if !dropped {
			for k, n := range next {
				if m := checkObs(g, n, st, kind); m != "" {
					lastMsg = m
					delete(next, k)
				}
			}
			if len(next) == 0 {
				return mk(kind+"/"+op.Op+"/obs", fmt.Sprintf("step %d %s: %s", i, op, lastMsg), i)
			}
		}
		if !dropped && !p.Closed {
			if recs, ok := st.IndexRecs(); ok && strings.Join(recs, ",") != strings.Join(p.Recs, ",") {
				return mk(kind+"/"+op.Op+"/index-vs-file", fmt.Sprintf("step %d %s: the in-memory index holds %v, the sections on disk are %v", i, op, recs, p.Recs), i)
			}
		}
		if checkC05 {
			for _, n := range next {
				if m := checkFile(n, p.Bytes); m != "" {
					return mk(kind+"/"+op.Op+"/file", fmt.Sprintf("step %d %s: %s", i, op, m), i)
				}
				if n.S.Phase == "closed" && (n.S.Fin || n.S.O.V1) {
					if m := checkLibraryAccepts(&n.S, path, p.Bytes); m != "" {
						return mk(kind+"/"+op.Op+"/library-rejects", fmt.Sprintf("step %d %s: %s", i, op, m), i)
					}
					rep.count("finalized_files_checked", 1)
					if m := checkFlattenVsRegenerate(&n.S, p.Bytes); m != "" {
						return mk(kind+"/"+op.Op+"/flatten-vs-regenerate", fmt.Sprintf("step %d %s: %s", i, op, m), i)
					}
				}
				break
			}
		}
		cur = next
		rep.count("steps", 1)
	}
	return nil
}

// enumeration ---------------------------------------------------------------------------

type sJob struct {
	init *sNode
	kind string
	ops  []sOp
}

var storeOpFilter map[string]bool

func opsFor(n *sNode, kind string) []sOp {
	var out []sOp
	for _, t := range n.Trans {
		if storeOpFilter != nil && !storeOpFilter[t.Op.Op] {
			continue
		}
		if inList(t.Kinds, kind) {
			out = append(out, t.Op)
		}
	}
	return out
}

// enumPaths: all op sequences of length <= depth through the graph (following every
// alternative), at most `tail` further non-reopen ops once closed.
func enumPaths(g *sGraph, init *sNode, kind string, depth, tail int, emit func([]sOp)) {
	var rec func(cur map[string]*sNode, ops []sOp, closedOps int)
	rec = func(cur map[string]*sNode, ops []sOp, closedOps int) {
		if len(ops) > 0 {
			// emit maximal paths only (prefixes are checked on the way)
			if len(ops) == depth {
				emit(append([]sOp{}, ops...))
				return
			}
		}
		seen := map[string]bool{}
		extended := false
		var keys []string
		for k := range cur {
			keys = append(keys, k)
		}
		sort.Strings(keys)
		for _, k := range keys {
			n := cur[k]
			for _, op := range opsFor(n, kind) {
				if seen[op.String()] {
					continue
				}
				seen[op.String()] = true
				allClosed := true
				for _, m := range cur {
					if m.S.Phase != "closed" {
						allClosed = false
					}
				}
				co := closedOps
				if allClosed && op.Op != "reopen" {
					if closedOps >= tail {
						continue
					}
					co++
				} else if op.Op == "reopen" {
					co = 0
				}
				next := map[string]*sNode{}
				for _, m := range cur {
					if t := m.trans(op); t != nil {
						for _, a := range t.Alts {
							if nn, ok := g.nodes[a.nextKey]; ok {
								next[a.nextKey] = nn
							}
						}
					}
				}
				if len(next) == 0 {
					continue
				}
				extended = true
				rec(next, append(ops, op), co)
			}
		}
		if !extended && len(ops) > 0 {
			emit(append([]sOp{}, ops...))
		}
	}
	rec(map[string]*sNode{init.key: init}, nil, 0)
}

// coverPaths: for every (state, op) of the graph a shortest op sequence reaching the state, then op.
func coverPaths(g *sGraph, init *sNode, kind string, emit func([]sOp)) {
	type qe struct {
		n   *sNode
		ops []sOp
	}
	seen := map[string]bool{init.key: true}
	q := []qe{{init, nil}}
	for len(q) > 0 {
		e := q[0]
		q = q[1:]
		for _, op := range opsFor(e.n, kind) {
			path := append(append([]sOp{}, e.ops...), op)
			emit(path)
			t := e.n.trans(op)
			for _, a := range t.Alts {
				if !seen[a.nextKey] {
					if nn, ok := g.nodes[a.nextKey]; ok {
						seen[a.nextKey] = true
						q = append(q, qe{nn, path})
					}
				}
			}
		}
	}
}

func runStoreReplay(args []string) int {
	// args: <tlc-output> <report.json> depth=<n> tail=<n> cover=<0|1> c05=<0|1> kinds=a,b seed=<n> sample=<permille>
	in, out := args[0], args[1]
	depth, tail, cover, c05, seed, sample := 3, 1, 1, 0, int64(1), 1000
	c12 := 0
	kinds := []string{"blockstore", "storage"}
	for _, a := range args[2:] {
		var k, v string
		if i := strings.IndexByte(a, '='); i > 0 {
			k, v = a[:i], a[i+1:]
		}
		switch k {
		case "depth":
			fmt.Sscan(v, &depth)
		case "tail":
			fmt.Sscan(v, &tail)
		case "cover":
			fmt.Sscan(v, &cover)
		case "c05":
			fmt.Sscan(v, &c05)
		case "seed":
			fmt.Sscan(v, &seed)
		case "sample":
			fmt.Sscan(v, &sample)
		case "kinds":
			kinds = strings.Split(v, ",")
		case "c12":
			fmt.Sscan(v, &c12)
		case "ops":
			storeOpFilter = map[string]bool{}
			for _, o := range strings.Split(v, ",") {
				storeOpFilter[o] = true
			}
		}
	}
	rep := newReport("store")
	g, err := loadStoreGraph(in)
	if err != nil || len(g.inits) == 0 {
		rep.inconclusive(fmt.Sprintf("cannot load state graph: %v (inits=%d)", err, len(g.inits)))
		rep.write(out)
		return 2
	}
	rep.count("graph_states", len(g.nodes))
	nt := 0
	for _, n := range g.nodes {
		nt += len(n.Trans)
	}
	rep.count("graph_transitions", nt)

	jobs := make(chan sJob, 1024)
	var wg sync.WaitGroup
	var nviol int64
	base := "/dev/shm"
	if _, err := os.Stat(base); err != nil {
		base = os.TempDir()
	}
	for w := 0; w < 16; w++ {
		wg.Add(1)
		go func(w int) {
			defer wg.Done()
			dir, err := os.MkdirTemp(base, "vh-store-")
			if err != nil {
				rep.inconclusive(err.Error())
				return
			}
			defer func() { os.RemoveAll(dir) }()
			for j := range jobs {
				var v *Violation
				func() {
					defer func() {
						if r := recover(); r != nil {
							v = &Violation{Class: j.kind + "/panic", Detail: fmt.Sprint(r),
								Replay: map[string]any{"family": "store", "kind": j.kind, "init": j.init.S, "ops": j.ops}}
						}
					}()
					v = runStorePath(g, j.init, j.kind, j.ops, dir, rep, c05 == 1)
					if v == nil && c12 == 1 {
						v = compareUninterrupted(g, j.init, j.kind, j.ops, dir, rep)
					}
				}()
				if v != nil && isEnvFault(v.Detail, dir) {
					// the harness's own scratch directory or descriptors failed it: not an observation of go-car.
					// Take a fresh directory and run the path again; only a repeated failure is reported, as inconclusive.
					if nd, err := os.MkdirTemp(base, "vh-store-"); err == nil {
						os.RemoveAll(dir)
						dir = nd
						v = runStorePath(g, j.init, j.kind, j.ops, dir, rep, c05 == 1)
						if v == nil && c12 == 1 {
							v = compareUninterrupted(g, j.init, j.kind, j.ops, dir, rep)
						}
					}
					if v != nil && isEnvFault(v.Detail, dir) {
						rep.inconclusive("environment fault: " + v.Detail)
						v = nil
					}
				}
				key := j.kind + "|" + j.init.key + "|" + fmt.Sprint(j.ops)
				rep.eval(key, len(j.ops) > 1)
				if v != nil {
					atomic.AddInt64(&nviol, 1)
					rep.violate(v.Class, v.Detail, v.Replay)
				}
			}
		}(w)
	}
	rng := rand.New(rand.NewSource(seed))
	emitted := 0
	for _, init := range g.inits {
		for _, kind := range kinds {
			emit := func(ops []sOp) {
				if kind == "storage" {
					// "discard" of a storage instance means abandoning it: only a reopen may follow
					for i := 0; i+1 < len(ops); i++ {
						if ops[i].Op == "discard" && ops[i+1].Op != "reopen" {
							return
						}
					}
				}
				if sample < 1000 && rng.Intn(1000) >= sample {
					return
				}
				emitted++
				if emitted%5000 == 1 {
					var s []string
					for _, o := range ops {
						s = append(s, o.String())
					}
					rep.sample(map[string]any{"kind": kind, "opts": init.S.O, "roots": init.S.Roots, "ops": s}, 12)
				}
				jobs <- sJob{init, kind, ops}
			}
			enumPaths(g, init, kind, depth, tail, emit)
			if cover == 1 {
				coverPaths(g, init, kind, emit)
			}
		}
	}
	close(jobs)
	wg.Wait()
	rep.write(out)
	if nviol > 0 {
		return 1
	}
	return 0
}

// replayStoreCase re-executes one stored violation record.
func replayStoreCase(graphPath string, replay json.RawMessage) (*Violation, error) {
	var r struct {
		Kind string `json:"kind"`
		Init sState `json:"init"`
		Ops  []sOp  `json:"ops"`
	}
	if err := json.Unmarshal(replay, &r); err != nil {
		return nil, err
	}
	g, err := loadStoreGraph(graphPath)
	if err != nil {
		return nil, err
	}
	init, ok := g.nodes[r.Init.key()]
	if !ok {
		return nil, fmt.Errorf("initial state of the replay is not in the state graph")
	}
	dir, _ := os.MkdirTemp("", "vh-replay-")
	defer os.RemoveAll(dir)
	return runStorePath(g, init, r.Kind, r.Ops, dir, newReport("replay"), true), nil
}

// compareUninterrupted (C12): the file left by an interrupted-and-resumed session, once
// finalized, must be byte-identical to the file of the same puts without interruptions.
func compareUninterrupted(g *sGraph, init *sNode, kind string, ops []sOp, dir string, rep *Report) *Violation {
	interrupted := false
	for _, o := range ops {
		if o.Op == "reopen" && o.How == "same" {
			interrupted = true
		}
	}
	if !interrupted {
		return nil
	}
	run := func(name string, seq []sOp) ([]byte, error) {
		path := filepath.Join(dir, name)
		os.Remove(path)
		defer os.Remove(path)
		st, err := openReal(kind, path, init.S.Roots, init.S.O, false)
		if err != nil {
			return nil, err
		}
		// the storage API leaves the file to its caller: release every handle (Discard is idempotent)
		defer func() { st.Discard() }()
		open := true
		for _, o := range seq {
			switch o.Op {
			case "put":
				if open {
					if err := st.Put(alphaByID[o.B]); err != nil {
						// an over-long CID is refused in both sessions alike
						continue
					}
				}
			case "discard":
				if open {
					st.Discard()
					open = false
				}
			case "finalize":
				if open {
					if err := st.Finalize(); err != nil {
						return nil, err
					}
					st.Discard()
					open = false
				}
			case "reopen":
				if o.How != "same" || open {
					continue
				}
				nst, err := openReal(kind, path, init.S.Roots, init.S.O, true)
				if err != nil {
					return nil, fmt.Errorf("reopen: %w", err)
				}
				st = nst
				open = true
			}
		}
		if !open {
			// whatever the last interruption was, resume once more and finalize
			nst, err := openReal(kind, path, init.S.Roots, init.S.O, true)
			if err != nil {
				return nil, fmt.Errorf("final reopen: %w", err)
			}
			st = nst
		}
		if err := st.Finalize(); err != nil {
			return nil, err
		}
		st.Discard()
		return os.ReadFile(path)
	}
	var plain []sOp
	for _, o := range ops {
		if o.Op == "put" {
			plain = append(plain, o)
		}
	}
	a, err := run("int.car", ops)
	if err != nil {
		return &Violation{Class: kind + "/resume/error", Detail: "interrupted session failed: " + err.Error(),
			Replay: map[string]any{"family": "store", "kind": kind, "init": init.S, "ops": ops, "c12": true}}
	}
	b, err := run("plain.car", plain)
	if err != nil {
		return &Violation{Class: kind + "/resume/error", Detail: "uninterrupted session failed: " + err.Error(),
			Replay: map[string]any{"family": "store", "kind": kind, "init": init.S, "ops": ops, "c12": true}}
	}
	rep.count("resumed_vs_uninterrupted_files_compared", 1)
	if !bytes.Equal(a, b) {
		i := 0
		for i < len(a) && i < len(b) && a[i] == b[i] {
			i++
		}
		return &Violation{Class: kind + "/resume/bytes-differ",
			Detail: fmt.Sprintf("final file of the resumed session (%d bytes) differs from the uninterrupted one (%d bytes) at offset %d", len(a), len(b), i),
			Replay: map[string]any{"family": "store", "kind": kind, "init": init.S, "ops": ops, "c12": true}}
	}
	return nil
}
