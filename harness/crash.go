package main

// C06 (crash points) and C16 (write faults).
//
// A writing session is executed on the real store while every write/truncate it issues is
// recorded (storage: through our own ReaderAtWriterAt; blockstore: through the verif write
// hook on the real *os.File). Then EVERY crash point -- each operation boundary and each byte
// inside each write -- is materialised as a file image, reopened with the real resumption
// code, observed, continued and finalized. One observation record per crash point is
// validated by TLC against CrashObs!CrashSafe.

import (
	"bufio"
	"bytes"
	"encoding/binary"
	"encoding/json"
	"errors"
	"fmt"
	"io"
	"os"
	"path/filepath"
	"runtime"
	"strings"
	"sync"
	"time"

	"github.com/ipfs/go-cid"
	carv2 "github.com/ipld/go-car/v2"
	"github.com/ipld/go-car/v2/blockstore"
	"github.com/ipld/go-car/v2/storage"
	"github.com/ipld/go-car/v2/verifhook"
	mh "github.com/multiformats/go-multihash"
)

type wop struct {
	Kind string // "write" | "truncate"
	Off  int64
	Data []byte
	Size int64
	Call string // API call in progress: open / put:<id> / finalize / reopen
}

// memFile is an in-memory file implementing what storage needs, recording every mutation.
type memFile struct {
	mu    sync.Mutex
	data  []byte
	pos   int64
	log   *[]wop
	label *string
	fail  func(op *wop) (persist int, err error) // fault injection (C16); nil = none
	slow  bool                                   // C08: a write takes its time before it lands (a disk, a network file)
}

func (m *memFile) ReadAt(p []byte, off int64) (int, error) {
	m.mu.Lock()
	defer m.mu.Unlock()
	if off >= int64(len(m.data)) {
		return 0, io.EOF
	}
	n := copy(p, m.data[off:])
	if n < len(p) {
		return n, io.EOF
	}
	return n, nil
}

func (m *memFile) apply(off int64, p []byte) {
	if need := off + int64(len(p)); need > int64(len(m.data)) {
		m.data = append(m.data, make([]byte, need-int64(len(m.data)))...)
	}
	copy(m.data[off:], p)
}

func (m *memFile) WriteAt(p []byte, off int64) (int, error) {
	if m.slow {
		runtime.Gosched()
		time.Sleep(30 * time.Microsecond)
	}
	m.mu.Lock()
	defer m.mu.Unlock()
	op := wop{Kind: "write", Off: off, Data: append([]byte{}, p...)}
	if m.label != nil {
		op.Call = *m.label
	}
	if m.fail != nil {
		if persist, err := m.fail(&op); err != nil {
			m.apply(off, p[:persist])
			op.Data = op.Data[:persist]
			if m.log != nil {
				*m.log = append(*m.log, op)
			}
			return persist, err
		}
	}
	m.apply(off, p)
	if m.log != nil {
		*m.log = append(*m.log, op)
	}
	return len(p), nil
}

func (m *memFile) Write(p []byte) (int, error) {
	n, err := m.WriteAt(p, m.pos)
	m.pos += int64(n)
	return n, err
}

func (m *memFile) Truncate(size int64) error {
	m.mu.Lock()
	defer m.mu.Unlock()
	op := wop{Kind: "truncate", Size: size}
	if m.label != nil {
		op.Call = *m.label
	}
	if size < int64(len(m.data)) {
		m.data = m.data[:size]
	} else {
		m.data = append(m.data, make([]byte, size-int64(len(m.data)))...)
	}
	if m.log != nil {
		*m.log = append(*m.log, op)
	}
	return nil
}

func applyOps(base []byte, ops []wop, upto int, torn int) []byte {
	img := append([]byte{}, base...)
	ap := func(o wop, n int) {
		if o.Kind == "truncate" {
			if o.Size < int64(len(img)) {
				img = img[:o.Size]
			} else {
				img = append(img, make([]byte, o.Size-int64(len(img)))...)
			}
			return
		}
		d := o.Data[:n]
		if need := o.Off + int64(len(d)); need > int64(len(img)) && len(d) > 0 {
			img = append(img, make([]byte, need-int64(len(img)))...)
		}
		copy(img[o.Off:], d)
	}
	for i := 0; i < upto; i++ {
		ap(ops[i], len(ops[i].Data))
	}
	if torn > 0 {
		ap(ops[upto], torn)
	}
	return img
}

// ---- sessions ----------------------------------------------------------------------------

type crPhase struct {
	Resume   bool     `json:"resume"`
	Puts     []string `json:"puts"`
	Finalize bool     `json:"finalize"`
	// Crashed: this (earlier) phase itself ended in a crash inside Finalize, after the index had
	// reached the disk and before the CARv2 header write: the image the next phase resumes from
	// has the finished file's bytes with the 40 header bytes still zero.
	Crashed bool `json:"crashed,omitempty"`
	// TornUnfin k > 0: after this (finalizing) phase a reopen started and crashed inside its own
	// un-finalizing: the index was truncated away, the 16 characteristics bytes were cleared and k
	// bytes of the 24-byte offsets write had reached the disk.
	TornUnfin int `json:"torn_unfinalize,omitempty"`
}

type crShape struct {
	Name   string    `json:"name"`
	Phases []crPhase `json:"phases"`
}

type crSession struct {
	Kind  string         `json:"kind"`
	O     sOpts          `json:"o"`
	Roots []string       `json:"roots"`
	Shape crShape        `json:"shape"`
	base  []byte         // image before the last phase
	ops   []wop          // operations of the last phase
	ackAt map[string]int // block id -> number of ops issued when its Put returned (last phase)
	putAt map[string]int // block id -> number of ops issued when its Put was called
	prior []string       // blocks acknowledged in earlier phases
	final []byte
}

var hookMu sync.Mutex

var errResumeRefused = errors.New("resume of the crashed image refused")

// openStoreOn opens (or resumes) a store of the given kind over path / mem.
func openStoreOn(kind, path string, mem *memFile, roots []string, o sOpts, resume bool) (realStore, error) {
	if kind == "blockstore" {
		bs, err := blockstore.OpenReadWrite(path, idsToCids(roots), o.carOpts()...)
		if err != nil {
			return nil, err
		}
		return &rwStore{bs, nil}, nil
	}
	var sc *storage.StorageCar
	var err error
	if resume {
		sc, err = storage.OpenReadableWritable(mem, idsToCids(roots), o.carOpts()...)
	} else {
		sc, err = storage.NewReadableWritable(mem, idsToCids(roots), o.carOpts()...)
	}
	if err != nil {
		return nil, err
	}
	return &scStore{sc, nil}, nil
}

// record runs the whole shape and keeps base/ops of the LAST phase.
func (s *crSession) record(dir string) error {
	path := filepath.Join(dir, "sess.car")
	os.Remove(path)
	defer os.Remove(path)
	mem := &memFile{}
	label := ""
	var log []wop
	mem.log, mem.label = &log, &label
	if s.Kind == "blockstore" {
		hookMu.Lock()
		defer hookMu.Unlock()
		verifhook.Set(&verifhook.Hooks{
			Write: func(target any, off int64, p []byte, n int, err error) {
				if f, ok := target.(*os.File); ok && f.Name() == path {
					log = append(log, wop{Kind: "write", Off: off, Data: append([]byte{}, p[:n]...), Call: label})
				}
			},
			Truncate: func(target any, size int64, err error) {
				if f, ok := target.(*os.File); ok && f.Name() == path && err == nil {
					log = append(log, wop{Kind: "truncate", Size: size, Call: label})
				}
			},
		})
		defer verifhook.Set(nil)
	}
	current := func() []byte {
		if s.Kind == "blockstore" {
			b, _ := os.ReadFile(path)
			return b
		}
		return append([]byte{}, mem.data...)
	}
	for pi, ph := range s.Shape.Phases {
		last := pi == len(s.Shape.Phases)-1
		if last {
			s.base = current()
			log = log[:0]
			s.ackAt, s.putAt = map[string]int{}, map[string]int{}
		}
		label = "open"
		if ph.Resume {
			label = "reopen"
		}
		st, err := openStoreOn(s.Kind, path, mem, s.Roots, s.O, ph.Resume)
		if err != nil {
			if pi > 0 && (s.Shape.Phases[pi-1].Crashed || s.Shape.Phases[pi-1].TornUnfin > 0) {
				// refusing to resume a crashed file is acceptable (C06); there is no session to enumerate then
				return errResumeRefused
			}
			return fmt.Errorf("phase %d open: %w", pi, err)
		}
		for _, id := range ph.Puts {
			label = "put:" + id
			if last {
				s.putAt[id] = len(log)
			}
			if err := st.Put(alphaByID[id]); err != nil {
				return fmt.Errorf("phase %d put %s: %w", pi, id, err)
			}
			if last {
				s.ackAt[id] = len(log)
			} else {
				s.prior = append(s.prior, id)
			}
		}
		if ph.Finalize {
			label = "finalize"
			if err := st.Finalize(); err != nil {
				return fmt.Errorf("phase %d finalize: %w", pi, err)
			}
		} else if s.Kind == "blockstore" {
			st.Discard()
		}
		if ph.TornUnfin > 0 && !last && !s.O.V1 {
			img := current()
			if len(img) >= 51 {
				end := int(binary.LittleEndian.Uint64(img[27:35]) + binary.LittleEndian.Uint64(img[35:43]))
				if end > 51 && end <= len(img) {
					img = img[:end]
					for i := 11; i < 27+ph.TornUnfin; i++ {
						img[i] = 0
					}
					if s.Kind == "blockstore" {
						if err := os.WriteFile(path, img, 0o644); err != nil {
							return err
						}
					} else {
						mem.data = append(mem.data[:0], img...)
					}
				}
			}
		}
		if ph.Crashed && !last && !s.O.V1 {
			// the header is the last write of Finalize: without it bytes 11..50 are still zero
			zero := make([]byte, 40)
			if s.Kind == "blockstore" {
				f, err := os.OpenFile(path, os.O_WRONLY, 0)
				if err != nil {
					return err
				}
				f.WriteAt(zero, 11)
				f.Close()
			} else if len(mem.data) >= 51 {
				copy(mem.data[11:51], zero)
			}
		}
	}
	s.ops = append([]wop{}, log...)
	s.final = current()
	return nil
}

// wkind names a write by where it lands.
func (s *crSession) wkind(o wop) string {
	if o.Kind == "truncate" {
		return "truncate"
	}
	dataOff := int64(0)
	if !s.O.V1 {
		dataOff = int64(51 + s.O.Dpad)
		if o.Off == 0 && len(o.Data) == 11 {
			return "pragma"
		}
		if o.Off == 11 {
			return "v2header-characteristics"
		}
		if o.Off == 27 {
			return "v2header-offsets"
		}
	}
	switch {
	case strings.HasPrefix(o.Call, "put:"):
		return "section"
	case o.Call == "finalize":
		return "index"
	case o.Call == "open":
		return "v1header"
	}
	_ = dataOff
	return "other"
}

type crObs struct {
	Sid     int      `json:"sid"`
	I       int      `json:"i"`
	K       int      `json:"k"`
	Call    string   `json:"call"`
	Wkind   string   `json:"wkind"`
	Torn    bool     `json:"torn"`
	Acked   []string `json:"acked"`
	Put     []string `json:"put"`
	Reopen  string   `json:"reopen"` // ok | err
	Intact  bool     `json:"intact"` // refused reopen: every acknowledged section still on disk
	Keys    []string `json:"keys"`
	Unknown int      `json:"unknown"` // listed keys that are no block of the alphabet / never put
	GetOK   bool     `json:"getok"`
	ContOK  bool     `json:"contok"`
	Msg     string   `json:"msg"`
}

var crExtra = []string{"b6", "b9"}

// sectionsPresent: does img (under options o) still hold a complete section for every id?
func sectionsPresent(img []byte, o sOpts, ids []string) bool {
	for _, id := range ids {
		b := alphaByID[id]
		if isIdentityCid(b.Cid) && !o.Ident {
			continue
		}
		if !bytes.Contains(img, refSection(b.Cid, b.Data)) {
			return false
		}
	}
	return true
}

func (s *crSession) evalCrash(sid, i, k int, dir string) crObs {
	img := applyOps(s.base, s.ops, i, k)
	o := crObs{Sid: sid, I: i, K: k, Torn: k > 0, Acked: append([]string{}, s.prior...), Put: append([]string{}, s.prior...), Keys: []string{}}
	if i < len(s.ops) {
		o.Call, o.Wkind = s.ops[i].Call, s.wkind(s.ops[i])
	} else {
		o.Call, o.Wkind = "done", "none"
	}
	// a write that is in progress (torn) has started: ops issued = i (+1 if torn)
	for id, at := range s.ackAt {
		if at <= i {
			o.Acked = append(o.Acked, id)
		}
	}
	for id, at := range s.putAt {
		if at <= i {
			o.Put = append(o.Put, id)
		}
	}
	// identity blocks are accepted but never stored unless StoreIdentityCIDs is on
	stored := func(ids []string) []string {
		out := []string{}
		for _, id := range ids {
			if isIdentityCid(alphaByID[id].Cid) && !s.O.Ident {
				continue
			}
			out = append(out, id)
		}
		return out
	}
	o.Acked, o.Put = stored(o.Acked), stored(o.Put)
	path := filepath.Join(dir, fmt.Sprintf("crash-%d.car", sid))
	os.Remove(path)
	defer os.Remove(path)
	mem := &memFile{data: append([]byte{}, img...)}
	if s.Kind == "blockstore" {
		os.WriteFile(path, img, 0o644)
	}
	st, err := openStoreOn(s.Kind, path, mem, s.Roots, s.O, true)
	after := func() []byte {
		if s.Kind == "blockstore" {
			b, _ := os.ReadFile(path)
			return b
		}
		return mem.data
	}
	if err != nil {
		o.Reopen = "err"
		o.Msg = err.Error()
		o.Intact = sectionsPresent(after(), s.O, o.Acked)
		return o
	}
	o.Reopen = "ok"
	o.GetOK = true
	// which blocks does the resumed store hold?
	putSet := map[string]bool{}
	for _, id := range o.Put {
		putSet[alphaByID[id].Cid.KeyString()] = true
	}
	if keys, kerr, ok := st.AllKeys(); ok {
		if kerr != nil {
			o.GetOK = false
			o.Msg = "AllKeysChan: " + kerr.Error()
		}
		for _, c := range keys {
			found := false
			for _, id := range o.Put {
				if bytes.Equal(alphaByID[id].Cid.Hash(), c.Hash()) {
					found = true
					o.Keys = append(o.Keys, id)
					break
				}
			}
			if !found {
				o.Unknown++
				o.Msg += fmt.Sprintf(" phantom key %s;", c)
			}
		}
	} else {
		probe := append([]*ABlock{}, alphabet...)
		for _, id := range o.Put { // blocks of the session that are not part of the TLA+ alphabet (synthetic ones)
			if b := alphaByID[id]; b != nil && len(id) > 0 && (id[0] == 'g' || id[0] == 't') {
				probe = append(probe, b)
			}
		}
		for _, b := range probe {
			if isIdentityCid(b.Cid) && !s.O.Ident {
				continue
			}
			if first, _ := blockOfCid(b.Cid); first != b {
				continue // a second alphabet entry for the same CID
			}
			has, herr := st.Has(b.Cid)
			if herr != nil {
				o.GetOK = false
				o.Msg += " Has: " + herr.Error()
				continue
			}
			if has {
				if putSet[b.Cid.KeyString()] {
					o.Keys = append(o.Keys, b.ID)
				} else {
					match := false
					for _, id := range o.Put {
						if bytes.Equal(alphaByID[id].Cid.Hash(), b.Cid.Hash()) {
							match = true
						}
					}
					if !match {
						o.Unknown++
						o.Msg += " phantom " + b.ID + ";"
					}
				}
			}
		}
	}
	for _, id := range o.Keys {
		b := alphaByID[id]
		data, gerr := st.Get(b.Cid)
		if gerr != nil || !bytes.Equal(data, b.Data) {
			o.GetOK = false
			o.Msg += fmt.Sprintf(" Get(%s): err=%v intact=%v;", id, gerr, bytes.Equal(data, b.Data))
		}
	}
	// every acknowledged block must be retrievable
	for _, id := range o.Acked {
		b := alphaByID[id]
		if isIdentityCid(b.Cid) && !s.O.Ident {
			continue
		}
		data, gerr := st.Get(b.Cid)
		if gerr != nil || !bytes.Equal(data, b.Data) {
			o.GetOK = false
			o.Msg += fmt.Sprintf(" acknowledged %s lost (err=%v);", id, gerr)
		}
	}
	// continue: two more puts and Finalize, then the archive must be well formed and hold everything
	o.ContOK = true
	for _, id := range crExtra {
		if err := st.Put(alphaByID[id]); err != nil {
			o.ContOK = false
			o.Msg += " continue put: " + err.Error()
		}
	}
	if err := st.Finalize(); err != nil {
		o.ContOK = false
		o.Msg += " continue finalize: " + err.Error()
		if s.Kind == "blockstore" {
			st.Discard()
		}
	}
	if o.ContOK {
		want := append(append([]string{}, o.Acked...), crExtra...)
		if m := wellFormedHolding(after(), s.O, s.Roots, want, o.Put); m != "" {
			o.ContOK = false
			o.Msg += " final archive: " + m
		}
	}
	return o
}

// wellFormedHolding: reference-decode the finished file; every section must be a valid block,
// the index must resolve exactly the sections, Inspect(true) must accept it, and every id of
// `want` must be present.
func wellFormedHolding(b []byte, o sOpts, roots []string, want, allowed []string) string {
	payload := b
	var h *RefV2
	if !o.V1 {
		var err error
		h, err = refParseV2(b)
		if err != nil {
			return err.Error()
		}
		if int(h.DataOffset) != 51+o.Dpad {
			return fmt.Sprintf("data offset %d", h.DataOffset)
		}
		payload = h.Payload
	}
	v1, err := refParseV1(payload, false)
	if err != nil {
		return "payload: " + err.Error()
	}
	wr := idsToCids(roots)
	if len(v1.Roots) != len(wr) {
		return "roots changed"
	}
	have := map[string]bool{}
	var recs []RefRec
	for _, s := range v1.Secs {
		hc, err := s.Cid.Prefix().Sum(s.Data)
		if err != nil || !hc.Equals(s.Cid) {
			return fmt.Sprintf("section at %d: data does not hash to its CID %s", s.Off, s.Cid)
		}
		have[s.Cid.KeyString()] = true
		if o.Ident || !isIdentityCid(s.Cid) {
			recs = append(recs, refRecOf(s.Cid, uint64(s.Off), o.codecNum()))
		}
	}
	for _, id := range want {
		blk := alphaByID[id]
		if isIdentityCid(blk.Cid) && !o.Ident {
			continue
		}
		if !have[blk.Cid.KeyString()] {
			return "block " + id + " missing from the finished archive"
		}
	}
	if h != nil {
		if h.Index == nil {
			return "no index"
		}
		ix, err := refDecodeIndex(h.Index)
		if err != nil {
			return "index: " + err.Error()
		}
		g, w := recMultiset(ix.Recs), recMultiset(recs)
		if len(g) != len(w) {
			return fmt.Sprintf("index has %d distinct records for %d", len(g), len(w))
		}
		for k2, v := range w {
			if g[k2] != v {
				return "index record multiset differs from the sections"
			}
		}
		if int(h.IndexOffset) != 51+o.Dpad+len(payload)+o.Ipad {
			return "index offset inconsistent"
		}
		// the index of a CARv2 runs to the end of the file
		if ix.Consumed != len(h.Index) {
			return fmt.Sprintf("bytes after the index: %d", len(h.Index)-ix.Consumed)
		}
	}
	rd, err := carv2.NewReader(bytes.NewReader(b))
	if err != nil {
		return "NewReader: " + err.Error()
	}
	if _, err := rd.Inspect(true); err != nil {
		return "Inspect(true): " + err.Error()
	}
	return ""
}

var _ = errors.New
var _ = cid.Undef
var _ = bufio.NewReader
var _ = json.Marshal
var _ = runtime.NumCPU

// ---- driver --------------------------------------------------------------------------------

// manyBlocks registers n synthetic sha2-256 blocks (ids g00, g01, ...) for the crash harness only: the crash
// relation treats block ids as opaque, so they need not be part of the TLA+ alphabet.
func manyBlocks(n int) []string {
	var ids []string
	for i := 0; i < n; i++ {
		id := fmt.Sprintf("g%02d", i)
		if _, ok := alphaByID[id]; !ok {
			data := []byte(fmt.Sprintf("synthetic block %d of the crash harness", i))
			h, _ := mh.Sum(data, mh.SHA2_256, -1)
			c := cid.NewCidV1(cid.Raw, h)
			b := &ABlock{ID: id, Cid: c, Data: data, DataI: "x" + id, Valid: true, Ver: 1, Codec: cid.Raw, HCode: mh.SHA2_256, DLen: 32}
			alphaByID[id] = b
			if _, ok := alphaByCid[c.KeyString()]; !ok {
				alphaByCid[c.KeyString()] = b
			}
			dataByID["x"+id] = data
		}
		ids = append(ids, id)
	}
	return ids
}

// sizedBlock registers a synthetic sha2-256 block of n bytes without a zero byte among them.
func sizedBlock(n int) string {
	id := fmt.Sprintf("t%d", n)
	if _, ok := alphaByID[id]; !ok {
		data := bytes.Repeat([]byte{0x5a}, n)
		copy(data, fmt.Sprintf("sized %d ", n))
		h, _ := mh.Sum(data, mh.SHA2_256, -1)
		c := cid.NewCidV1(cid.Raw, h)
		b := &ABlock{ID: id, Cid: c, Data: data, DataI: "x" + id, Valid: true, Ver: 1, Codec: cid.Raw, HCode: mh.SHA2_256, DLen: 32}
		alphaByID[id] = b
		if _, ok := alphaByCid[c.KeyString()]; !ok {
			alphaByCid[c.KeyString()] = b
		}
		dataByID["x"+id] = data
	}
	return id
}

// A payload whose size, reduced modulo 256, points at a zero byte of the payload itself: with the one root b1 the
// header is 59 bytes and its byte 13 is the 0x00 multibase prefix of the root link; 59 + (37+91) + (37+45) = 269 = 256+13.
// A DataSize field torn after its first byte then names a "payload end" that is followed by a zero byte.
func nullAtLowByte() []string { return []string{"b13", sizedBlock(45)} }

func crashShapes(thorough bool) []crShape {
	sh := []crShape{
		{"datasize-low-byte-on-null", []crPhase{{false, nullAtLowByte(), true, false, 0}}},
		// an index of more than 1 KiB: cut between index and header, its first bytes read as one long section
		{"thirty-blocks", []crPhase{{false, manyBlocks(30), true, false, 0}}},
		{"put2-finalize", []crPhase{{false, []string{"b1", "b4"}, true, false, 0}}},
		{"empty-finalize", []crPhase{{false, nil, true, false, 0}}},
		{"boundary-blocks", []crPhase{{false, []string{"b12", "b13", "b5"}, true, false, 0}}},
		{"finalized-then-resumed", []crPhase{{false, []string{"b1"}, true, false, 0}, {true, []string{"b4"}, true, false, 0}}},
		{"discarded-then-resumed", []crPhase{{false, []string{"b1", "b5"}, false, false, 0}, {true, []string{"b4"}, true, false, 0}}},
		// the first session itself crashed inside Finalize (index on disk, header not yet): the resumed session's
		// crash points include tearing a section over the stale index bytes
		{"crashed-in-finalize-then-resumed", []crPhase{{false, []string{"b1", "b4"}, true, true, 0}, {true, []string{"b13", "b9"}, true, false, 0}}},
		{"resumed-no-puts", []crPhase{{false, []string{"b1", "b4"}, true, false, 0}, {true, nil, true, false, 0}}},
		// a payload of more than 255 bytes: a torn DataSize field is a smaller number than the real one
		{"payload-over-255", []crPhase{{false, []string{"b13", "b14", "b4"}, true, false, 0}}},
		// a reopen of the finalized file crashed inside its own header clearing (DataOffset gone, the old DataSize and
		// IndexOffset still there); the next reopen resumes, puts and finalizes: its torn header writes meet the stale fields
		{"torn-unfinalize-then-resumed", []crPhase{{false, []string{"b1", "b4"}, true, false, 5}, {true, []string{"b13"}, true, false, 0}}},
	}
	if thorough {
		sh = append(sh,
			crShape{"put3-mixed-hashes", []crPhase{{false, []string{"b6", "b8", "b10", "b1"}, true, false, 0}}},
			crShape{"twice-resumed", []crPhase{{false, []string{"b1"}, true, false, 0}, {true, []string{"b4"}, false, false, 0}, {true, []string{"b14"}, true, false, 0}}},
			crShape{"resume-then-discard-style", []crPhase{{false, []string{"b13"}, false, false, 0}, {true, []string{"b14", "b3"}, false, false, 0}}},
			crShape{"big-block", []crPhase{{false, []string{"b15"}, true, false, 0}}},
		)
	}
	return sh
}

func crashConfigs(thorough bool) []sOpts {
	c := []sOpts{
		{Maxcid: 2048, Codec: "mh"},
		{Maxcid: 2048, Codec: "sorted", Dpad: 1, Ipad: 7},
		{Maxcid: 2048, Codec: "mh", V1: true},
		{Maxcid: 2048, Codec: "mh", Ident: true},
		// index padding + ZeroLengthSectionAsEOF: a resume reads through the padding of an interrupted Finalize
		{Maxcid: 2048, Codec: "mh", Ipad: 100, Zero: true},
		// data padding of the size of a small archive: offsets computed relative to the payload and to the file differ by it
		{Maxcid: 2048, Codec: "mh", Dpad: 1024},
		// ZeroLengthSectionAsEOF alone (no padding): a resume's scan that runs into index bytes ends at their first zero byte
		{Maxcid: 2048, Codec: "mh", Zero: true},
	}
	if thorough {
		c = append(c, sOpts{Maxcid: 2048, Codec: "mh", Dpad: 1413, Ipad: 1407, Ident: true, Dup: true},
			sOpts{Maxcid: 2048, Codec: "sorted", V1: true, Ident: true, Whole: true})
	}
	return c
}

func runCrashEnum(args []string) int {
	out, obsPath, sessPath, protoPath := args[0], args[1], args[2], args[3]
	thorough := false
	for _, a := range args[4:] {
		if a == "tier=thorough" {
			thorough = true
		}
	}
	rep := newReport("crash")
	base := "/dev/shm"
	if _, err := os.Stat(base); err != nil {
		base = os.TempDir()
	}
	dir, _ := os.MkdirTemp(base, "vh-crash-")
	defer os.RemoveAll(dir)
	var sessions []*crSession
	for _, kind := range []string{"blockstore", "storage"} {
		for _, o := range crashConfigs(thorough) {
			for _, sh := range crashShapes(thorough) {
				s := &crSession{Kind: kind, O: o, Roots: []string{"b1"}, Shape: sh}
				if err := s.record(dir); err == errResumeRefused {
					rep.count("crashed_images_whose_resume_is_refused", 1)
					continue
				} else if err != nil {
					rep.inconclusive(fmt.Sprintf("session %s/%s %+v could not be recorded: %v", kind, sh.Name, o, err))
					continue
				}
				sessions = append(sessions, s)
			}
		}
	}
	sf, _ := os.Create(sessPath)
	pf, _ := os.Create(protoPath)
	sw, pw := bufio.NewWriter(sf), bufio.NewWriter(pf)
	for sid, s := range sessions {
		b, _ := json.Marshal(map[string]any{"sid": sid + 1, "kind": s.Kind, "o": s.O, "shape": s.Shape, "nops": len(s.ops)})
		sw.Write(b)
		sw.WriteByte('\n')
		// write-protocol trace of the last phase (validated against WriteProto.tla)
		for j, op := range s.ops {
			b, _ := json.Marshal(map[string]any{"sid": sid + 1, "j": j + 1, "kind": op.Kind, "off": op.Off, "len": len(op.Data), "size": op.Size,
				"call": strings.SplitN(op.Call, ":", 2)[0], "wkind": s.wkind(op), "v1": s.O.V1, "dataoff": dataOffOf(s.O)})
			pw.Write(b)
			pw.WriteByte('\n')
		}
	}
	sw.Flush()
	pw.Flush()
	sf.Close()
	pf.Close()
	type job struct{ sid, i, k int }
	jobs := make(chan job, 1024)
	var mu sync.Mutex
	of, _ := os.Create(obsPath)
	ow := bufio.NewWriterSize(of, 1<<20)
	var wg sync.WaitGroup
	for w := 0; w < runtime.NumCPU(); w++ {
		wg.Add(1)
		go func(w int) {
			defer wg.Done()
			wdir, _ := os.MkdirTemp(base, "vh-crashw-")
			defer os.RemoveAll(wdir)
			for j := range jobs {
				s := sessions[j.sid]
				var o crObs
				func() {
					defer func() {
						if r := recover(); r != nil {
							o = crObs{Sid: j.sid + 1, I: j.i, K: j.k, Reopen: "ok", Msg: fmt.Sprint("panic: ", r), Acked: []string{}, Put: []string{}, Keys: []string{}}
							if j.i < len(s.ops) {
								o.Call, o.Wkind = s.ops[j.i].Call, s.wkind(s.ops[j.i])
							}
						}
					}()
					o = s.evalCrash(j.sid+1, j.i, j.k, wdir)
				}()
				if o.Acked == nil {
					o.Acked = []string{}
				}
				if o.Put == nil {
					o.Put = []string{}
				}
				o.Call = strings.SplitN(o.Call, ":", 2)[0]
				b, _ := json.Marshal(o)
				mu.Lock()
				ow.Write(b)
				ow.WriteByte('\n')
				mu.Unlock()
				rep.eval(fmt.Sprintf("%d/%d/%d", j.sid, j.i, j.k), true)
				rep.count("reopen_"+o.Reopen, 1)
			}
		}(w)
	}
	for sid, s := range sessions {
		for i := 0; i <= len(s.ops); i++ {
			jobs <- job{sid, i, 0}
			if i < len(s.ops) && s.ops[i].Kind == "write" {
				n := len(s.ops[i].Data)
				for k := 1; k < n; k++ {
					if n > 300 && k > 40 && k < n-40 && k%97 != 0 {
						continue // long data writes: both ends and a stride
					}
					jobs <- job{sid, i, k}
				}
			}
		}
		if sid < 6 {
			rep.sample(map[string]any{"kind": s.Kind, "opts": s.O, "shape": s.Shape, "ops_in_crashing_session": len(s.ops)}, 6)
		}
	}
	close(jobs)
	wg.Wait()
	ow.Flush()
	of.Close()
	rep.count("sessions", len(sessions))
	rep.write(out)
	if len(rep.Inconcl) > 0 {
		return 2
	}
	return 0
}

func dataOffOf(o sOpts) int {
	if o.V1 {
		return 0
	}
	return 51 + o.Dpad
}
