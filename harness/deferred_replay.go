package main

// Replay of Deferred.tla behaviours (C20) on the real DeferredCarWriter.

import (
	"bytes"
	"encoding/json"
	"errors"
	"fmt"
	"io"
	"os"
	"path/filepath"
	"runtime"
	"sync"

	carv2 "github.com/ipld/go-car/v2"
	"github.com/ipld/go-car/v2/storage"
	"github.com/ipld/go-car/v2/storage/deferred"
	"github.com/ipld/go-ipld-prime/linking"
	cidlink "github.com/ipld/go-ipld-prime/linking/cid"
)

type dfCfg struct {
	Target string `json:"target"`
	V1     bool   `json:"v1"`
	Ident  bool   `json:"ident"`
	Dup    bool   `json:"dup"`
	Whole  bool   `json:"whole"`
	Pre    bool   `json:"pre"`
}

type dfStep struct {
	Op struct {
		Op   string `json:"op"`
		ID   int    `json:"id"`
		Once bool   `json:"once"`
		B    string `json:"b"`
	} `json:"op"`
	Res   []string `json:"res"`
	Fired []struct {
		ID int `json:"id"`
		N  int `json:"n"`
	} `json:"fired"`
	Out struct {
		Kind  string   `json:"kind"`
		Roots []string `json:"roots"`
		Secs  []string `json:"secs"`
	} `json:"out"`
}

type dfCase struct {
	C     dfCfg    `json:"c"`
	Roots []string `json:"roots"`
	Hist  []dfStep `json:"hist"`
}

func dfExpected(c *dfCase, st *dfStep) []byte {
	if st.Out.Kind == "nothing" || st.Out.Kind == "untouched" {
		return nil
	}
	var blks []*ABlock
	for _, id := range st.Out.Secs {
		blks = append(blks, alphaByID[id])
	}
	payload := refBuildV1(idsToCids(st.Out.Roots), blks)
	switch st.Out.Kind {
	case "v1":
		return payload
	case "v2open":
		out := append([]byte{}, refPragma...)
		out = append(out, make([]byte, 40)...)
		return append(out, payload...)
	}
	a := Arch{Roots: st.Out.Roots, Secs: st.Out.Secs, Ver: 2, Idx: "mh", Full: c.C.Ident}
	return a.build()
}

func runDeferredCase(c *dfCase, dir string) (string, string) {
	path := filepath.Join(dir, "d.car")
	os.Remove(path)
	defer os.Remove(path)
	var stream bytes.Buffer
	opts := []carv2.Option{carv2.StoreIdentityCIDs(c.C.Ident), carv2.AllowDuplicatePuts(c.C.Dup), carv2.UseWholeCIDs(c.C.Whole)}
	var w *deferred.DeferredCarWriter
	junk := bytes.Repeat([]byte{0xa5}, 5000) // longer than any output of the model
	if c.C.Pre {
		os.WriteFile(path, junk, 0o644)
	}
	// a stream target without an explicit format option writes a CARv1 whatever else the stream can do:
	// every other such case hands over an *os.File (which is also an io.WriterAt) as the stream
	var streamFile *os.File
	if c.C.Target == "wstream" { // a stream that can be written at an offset, with the CARv2 format asked for explicitly
		spath := filepath.Join(dir, "wstream.car")
		os.Remove(spath)
		defer os.Remove(spath)
		streamFile, _ = os.OpenFile(spath, os.O_CREATE|os.O_TRUNC|os.O_RDWR, 0o644)
		defer streamFile.Close()
		opts = append(opts, carv2.WriteAsCarV1(c.C.V1))
		w = deferred.NewDeferredCarWriterForStream(streamFile, idsToCids(c.Roots), opts...)
	} else if c.C.Target == "stream" {
		if !c.C.V1 {
			opts = append(opts, carv2.WriteAsCarV1(false)) // said explicitly: must win over the constructor's default
		}
		if c.C.V1 && len(c.Hist)%2 == 1 {
			spath := filepath.Join(dir, "stream.car")
			os.Remove(spath)
			defer os.Remove(spath)
			streamFile, _ = os.OpenFile(spath, os.O_CREATE|os.O_TRUNC|os.O_RDWR, 0o644)
			defer streamFile.Close()
			w = deferred.NewDeferredCarWriterForStream(streamFile, idsToCids(c.Roots), opts...)
		} else {
			w = deferred.NewDeferredCarWriterForStream(&plainWriter{&stream}, idsToCids(c.Roots), opts...)
		}
	} else {
		if c.C.V1 {
			opts = append(opts, carv2.WriteAsCarV1(true))
		}
		w = deferred.NewDeferredCarWriterForPath(path, idsToCids(c.Roots), opts...)
	}
	defer func() { w.Close() }() // a history that does not end in close() would keep the path target's descriptor open
	type fire struct{ id, n int }
	var log []fire
	observe := func() ([]byte, bool) {
		if streamFile != nil {
			b, err := os.ReadFile(streamFile.Name())
			return b, err == nil && len(b) > 0
		}
		if c.C.Target == "stream" {
			return stream.Bytes(), stream.Len() > 0
		}
		b, err := os.ReadFile(path)
		return b, err == nil
	}
	for i, st := range c.Hist {
		log = log[:0]
		res := "ok"
		switch st.Op.Op {
		case "onput":
			id := st.Op.ID
			w.OnPut(func(n int) { log = append(log, fire{id, n}) }, st.Op.Once)
		case "has":
			h, err := w.Has(bg, alphaByID[st.Op.B].Cid.KeyString())
			switch {
			case errors.Is(err, storage.ErrClosed):
				res = "closed"
			case err != nil:
				res = "err:" + err.Error()
			default:
				res = fmt.Sprint(h)
			}
		case "put":
			b := alphaByID[st.Op.B]
			var err error
			if i%2 == 1 {
				// the same Put through the writer's BlockWriteOpener (stream the bytes, then commit under the link)
				var bw io.Writer
				var commit linking.BlockWriteCommitter
				bw, commit, err = w.BlockWriteOpener()(linking.LinkContext{Ctx: bg})
				if err == nil {
					bw.Write(b.Data)
					err = commit(cidlink.Link{Cid: b.Cid})
				}
			} else {
				err = w.Put(bg, b.Cid.KeyString(), b.Data)
			}
			switch {
			case errors.Is(err, storage.ErrClosed):
				res = "closed"
			case err != nil:
				res = "err:" + err.Error()
				if inList(st.Res, "err") {
					res = "err"
				}
			}
		case "close":
			err := w.Close()
			switch {
			case errors.Is(err, storage.ErrClosed):
				res = "closed"
			case err != nil:
				res = "err:" + err.Error()
			}
		}
		if !inList(st.Res, res) {
			return st.Op.Op + "-result", fmt.Sprintf("step %d %s: result %q, specification allows %v", i, st.Op.Op, res, st.Res)
		}
		if len(log) != len(st.Fired) {
			return "callbacks", fmt.Sprintf("step %d %s: %d callbacks fired %v, specification says %v", i, st.Op.Op, len(log), log, st.Fired)
		}
		for k := range log {
			if log[k].id != st.Fired[k].ID || log[k].n != st.Fired[k].N {
				return "callbacks", fmt.Sprintf("step %d %s: callback #%d is (id %d, size %d), specification says (id %d, size %d)", i, st.Op.Op, k, log[k].id, log[k].n, st.Fired[k].ID, st.Fired[k].N)
			}
		}
		got, exists := observe()
		want := dfExpected(c, &st)
		if st.Out.Kind == "nothing" {
			if exists {
				return "not-lazy", fmt.Sprintf("step %d %s: output exists (%d bytes) before any Put", i, st.Op.Op, len(got))
			}
			continue
		}
		if st.Out.Kind == "untouched" {
			if !exists || !bytes.Equal(got, junk) {
				return "not-lazy", fmt.Sprintf("step %d %s: the file that was at the path has been touched before any Put", i, st.Op.Op)
			}
			continue
		}
		if !exists {
			return "output-missing", fmt.Sprintf("step %d %s: no output although a Put happened", i, st.Op.Op)
		}
		if !bytes.Equal(got, want) {
			return "output-bytes", fmt.Sprintf("step %d %s: output has %d bytes, a direct writer's image has %d (kind %s, secs %v)", i, st.Op.Op, len(got), len(want), st.Out.Kind, st.Out.Secs)
		}
	}
	if c.C.Target == "stream" && !c.C.V1 {
		// the model's Refuses: a direct writer with these options must not be constructible either
		var sink bytes.Buffer
		dopts := append([]carv2.Option{carv2.WriteAsCarV1(true)}, opts...)
		if _, err := storage.NewWritable(&plainWriter{&sink}, idsToCids(c.Roots), dopts...); err == nil {
			return "direct-writer", "a direct writer accepts a plain stream with WriteAsCarV1(false): the specification's Refuses does not describe it"
		}
	}
	// direct writer with the same puts
	last := c.Hist[len(c.Hist)-1]
	if last.Out.Kind != "nothing" && last.Out.Kind != "untouched" {
		var buf bytes.Buffer
		dpath := filepath.Join(dir, "direct.car")
		os.Remove(dpath)
		defer os.Remove(dpath)
		var dw storage.WritableCar
		var err error
		var f *os.File
		dopts := append([]carv2.Option{}, opts...)
		if c.C.Target == "stream" {
			dopts = append([]carv2.Option{carv2.WriteAsCarV1(true)}, dopts...)
			dw, err = storage.NewWritable(&plainWriter{&buf}, idsToCids(c.Roots), dopts...)
		} else {
			f, _ = os.OpenFile(dpath, os.O_CREATE|os.O_TRUNC|os.O_WRONLY, 0o644)
			dw, err = storage.NewWritable(f, idsToCids(c.Roots), dopts...)
		}
		if err != nil {
			return "direct-writer", err.Error()
		}
		closed := false
		for _, st := range c.Hist {
			if st.Op.Op == "put" && !closed {
				b := alphaByID[st.Op.B]
				dw.Put(bg, b.Cid.KeyString(), b.Data)
			}
			if st.Op.Op == "close" && !closed {
				closed = true
				dw.Finalize()
			}
		}
		var direct []byte
		if f != nil {
			f.Close()
			direct, _ = os.ReadFile(dpath)
		} else {
			direct = buf.Bytes()
		}
		got, _ := observe()
		if !bytes.Equal(got, direct) {
			return "differs-from-direct-writer", fmt.Sprintf("deferred output %d bytes, direct writer %d bytes", len(got), len(direct))
		}
	}
	return "", ""
}

func runDeferredReplay(args []string) int {
	in, out := args[0], args[1]
	rep := newReport("deferred")
	jobs := make(chan []byte, 256)
	var wg sync.WaitGroup
	base := "/dev/shm"
	if _, err := os.Stat(base); err != nil {
		base = os.TempDir()
	}
	for w := 0; w < runtime.NumCPU(); w++ {
		wg.Add(1)
		go func() {
			defer wg.Done()
			dir, _ := os.MkdirTemp(base, "vh-df-")
			defer os.RemoveAll(dir)
			n := 0
			for raw := range jobs {
				var c dfCase
				if err := json.Unmarshal(raw, &c); err != nil {
					rep.inconclusive("bad record: " + err.Error())
					continue
				}
				n++
				var cls, msg string
				func() {
					defer func() {
						if r := recover(); r != nil {
							cls, msg = "panic", fmt.Sprint(r)
						}
					}()
					cls, msg = runDeferredCase(&c, dir)
					if cls != "" && isEnvFault(msg, dir) {
						// the process ran out of descriptors (or the like): not an observation of go-car; once more after a collection
						runtime.GC()
						cls, msg = runDeferredCase(&c, dir)
					}
				}()
				rep.eval(canon(c), true)
				if cls != "" && isEnvFault(msg, dir) {
					rep.inconclusive("environment fault in a deferred-writer case: " + msg)
					cls = ""
				}
				if cls != "" {
					var ops []string
					for _, s := range c.Hist {
						ops = append(ops, fmt.Sprintf("%s(%s%v)", s.Op.Op, s.Op.B, map[bool]string{true: "once", false: ""}[s.Op.Once && s.Op.Op == "onput"]))
					}
					rep.violate("deferred/"+cls, fmt.Sprintf("config %+v ops %v: %s", c.C, ops, msg), map[string]any{"family": "deferred", "case": c})
				}
				if n%2000 == 1 {
					var ops []any
					for _, s := range c.Hist {
						ops = append(ops, s.Op)
					}
					rep.sample(map[string]any{"cfg": c.C, "ops": ops}, 8)
				}
			}
		}()
	}
	err := readTLCRecords(in, func(raw []byte) error { jobs <- append([]byte{}, raw...); return nil })
	close(jobs)
	wg.Wait()
	if err != nil {
		rep.inconclusive(err.Error())
	}
	rep.write(out)
	if len(rep.ViolClasses) > 0 {
		return 1
	}
	if len(rep.Inconcl) > 0 {
		return 2
	}
	return 0
}
