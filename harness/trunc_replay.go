package main

// C02: every proper prefix and every byte corruption of valid archives is run through every
// verifying/scanning reader; one observation record per (archive, mutation, reader) is written
// as ndjson and validated by TLC against the relation Allowed of spec/ReaderObs.tla.

import (
	"bufio"
	"bytes"
	"context"
	"encoding/binary"
	"encoding/json"
	"errors"
	"fmt"
	"io"
	"os"
	"strings"
	"sync"
	"testing/iotest"

	blocks "github.com/ipfs/go-block-format"
	carv2 "github.com/ipld/go-car/v2"
)

type ctxT = context.Context

type truncObs struct {
	Aid    int    `json:"aid"`
	Kind   string `json:"kind"` // "trunc" | "flip"
	K      int    `json:"k"`    // trunc: prefix length; flip: file offset of the damaged byte
	Sec    int    `json:"sec"`  // flip: 1-based index of the damaged section
	Reader string `json:"reader"`
	N      int    `json:"n"`   // blocks returned before the end
	Bad    bool   `json:"bad"` // a returned block differs from the original at its position
	End    string `json:"end"` // "eof" | "err" | "ctor-err"
	Msg    string `json:"-"`
}

var obsMu sync.Mutex
var obsW, archW *bufio.Writer
var obsAid int

// truncIffOnly: only the C13 clause (Inspect(true) succeeds iff a verifying scan does) is evaluated on the
// mutation set; no reader observations are written
var truncIffOnly bool

func openObsFiles(obsPath, archPath string) (func(), error) {
	f1, err := os.Create(obsPath)
	if err != nil {
		return nil, err
	}
	f2, err := os.Create(archPath)
	if err != nil {
		return nil, err
	}
	obsW, archW = bufio.NewWriterSize(f1, 1<<20), bufio.NewWriterSize(f2, 1<<20)
	return func() { obsW.Flush(); archW.Flush(); f1.Close(); f2.Close() }, nil
}

func scanOutcome(c *acCase, kind string, file []byte) (n int, bad bool, end string, msg string) {
	check := func(i int, b blocks.Block) {
		if i >= len(c.Scan) {
			bad = true
			return
		}
		w := alphaByID[c.Scan[i].B]
		if !b.Cid().Equals(w.Cid) || !bytes.Equal(b.RawData(), w.Data) {
			bad = true
		}
	}
	switch kind {
	case "br-next", "br-next-plain", "br-skip", "br-alt", "br-skip-bufio", "br-next-dataerr", "br-skip-dataerr", "br-next-zero", "br-skip-zero", "br-skip-noend":
		var r io.Reader = bytes.NewReader(file)
		switch kind {
		case "br-skip-noend": // a seeker that cannot tell where it ends: SkipNext may fail, it must not take a cut for the end
			r = &noEndSeeker{bytes.NewReader(file)}
		case "br-next-plain":
			r = &plainReader{bytes.NewReader(file)}
		case "br-skip-bufio": // a buffered stream (has Discard, ReadByte)
			r = bufio.NewReaderSize(&plainReader{bytes.NewReader(file)}, 64)
		case "br-next-dataerr", "br-skip-dataerr": // a stream that hands out its last bytes together with io.EOF
			r = iotest.DataErrReader(&plainReader{bytes.NewReader(file)})
		}
		var bropts []carv2.Option
		if strings.HasSuffix(kind, "-zero") { // ZeroLengthSectionAsEOF must not turn a cut into a clean end
			bropts = append(bropts, carv2.ZeroLengthSectionAsEOF(true))
		}
		br, err := carv2.NewBlockReader(r, bropts...)
		if err != nil {
			return 0, false, "ctor-err", err.Error()
		}
		for i := 0; ; i++ {
			useSkip := strings.HasPrefix(kind, "br-skip") || (kind == "br-alt" && i%2 == 1)
			if useSkip {
				md, err := br.SkipNext()
				if err == io.EOF {
					return n, bad, "eof", ""
				}
				if err != nil {
					return n, bad, "err", err.Error()
				}
				if i >= len(c.Scan) || !md.Cid.Equals(alphaByID[c.Scan[i].B].Cid) {
					bad = true
				}
			} else {
				b, err := br.Next()
				if err == io.EOF {
					return n, bad, "eof", ""
				}
				if err != nil {
					return n, bad, "err", err.Error()
				}
				check(i, b)
			}
			n++
		}
	case "inspect":
		rd, err := carv2.NewReader(bytes.NewReader(file))
		if err != nil {
			return 0, false, "ctor-err", err.Error()
		}
		st, err := rd.Inspect(true)
		if err != nil {
			return 0, false, "err", err.Error()
		}
		return int(st.BlockCount), false, "eof", ""
	default:
		m := map[string]string{"root-reader": "root.CarReader", "root-load": "root.LoadCar", "int-reader": "internal.CarReader", "int-load": "internal.LoadCar"}
		_, blks, err := readAllWith(m[kind], file, file, false)
		for i, b := range blks {
			check(i, b)
		}
		n = len(blks)
		if err != nil {
			if strings.HasSuffix(kind, "-load") {
				// loaders hand blocks to the store as they go; what counts is the error
				return n, bad, "err", err.Error()
			}
			return n, bad, "err", err.Error()
		}
		return n, bad, "eof", ""
	}
}

// noEndSeeker reads and seeks, but not relative to its end (a stream of unknown length behind a seekable window).
type noEndSeeker struct{ r *bytes.Reader }

func (n *noEndSeeker) Read(p []byte) (int, error) { return n.r.Read(p) }
func (n *noEndSeeker) Seek(off int64, whence int) (int64, error) {
	if whence == io.SeekEnd {
		return 0, errors.New("harness: this source cannot seek relative to its end")
	}
	return n.r.Seek(off, whence)
}

func truncReaders(c *acCase) []string {
	rs := []string{"br-next", "br-next-plain", "br-skip", "br-alt", "br-skip-bufio", "br-next-dataerr", "br-skip-dataerr", "br-next-zero", "br-skip-zero", "br-skip-noend", "inspect"}
	if c.A.Ver == 1 {
		rs = append(rs, "root-reader", "int-reader")
		if len(c.A.Roots) > 0 {
			rs = append(rs, "root-load", "int-load")
		} else {
			rs = rs[:len(rs)-1] // the internal reader refuses archives without roots
		}
	}
	return rs
}

func runTruncCase(x *acCtx, c *acCase) {
	if c.A.Npad > 0 {
		return
	}
	file := c.A.build()
	obsMu.Lock()
	obsAid++
	aid := obsAid
	if !truncIffOnly {
		ab, _ := json.Marshal(map[string]any{"aid": aid, "a": c.A})
		archW.Write(ab)
		archW.WriteByte('\n')
	}
	obsMu.Unlock()
	var buf bytes.Buffer
	emit := func(o truncObs) {
		if truncIffOnly {
			x.rep.eval(fmt.Sprintf("%d/%s/%d/%s", aid, o.Kind, o.K, o.Reader), true)
			return
		}
		b, _ := json.Marshal(o)
		buf.Write(b)
		buf.WriteByte('\n')
		x.rep.eval(fmt.Sprintf("%d/%s/%d/%s", aid, o.Kind, o.K, o.Reader), true)
	}
	readers := truncReaders(c)
	if truncIffOnly {
		readers = []string{"br-next", "inspect"}
	}
	payloadEnd := c.Layout.DataOff + c.Layout.SectionsEnd
	iff := func(what string, k int, ends map[string]string) {
		// C13: Inspect(true) succeeds iff the verifying scan succeeds, for inputs accepted by NewReader
		if !truncIffOnly {
			return
		}
		i, s := ends["inspect"], ends["br-next"]
		if i == "ctor-err" {
			return
		}
		if what == "trunc" && c.A.Ver == 2 && c.A.Idx != "none" && i == "err" && s == "eof" {
			return // the header claims an index that the cut removed: its codec is not readable
		}
		if what == "header-flip" && c.A.Ver == 2 && k >= 43 && k < 51 && i == "err" && s == "eof" {
			return // the IndexOffset field: the header claims an index where no readable codec is (runStatsIndexMoved decides these exactly)
		}
		if (i == "eof") != (s == "eof") {
			x.viol("inspect/iff-scan-mutated", c, fmt.Sprintf("%s at %d: Inspect(true) ends %q but a verifying scan ends %q", what, k, i, s),
				map[string]any{"mode": "trunc", "mutation": what, "k": k})
		}
	}
	for k := 0; k < payloadEnd; k++ {
		if payloadEnd > 8192 && k > 700 && k < payloadEnd-700 && k%1499 != 0 {
			// large files: both ends densely, the middle with a stride (plus every section boundary +-2)
			near := false
			for _, s := range c.Scan {
				for _, b := range []int{int(s.Src), c.Layout.DataOff + int(s.Doff)} {
					if k >= b-2 && k <= b+40 {
						near = true
					}
				}
			}
			if !near {
				continue
			}
		}
		ends := map[string]string{}
		for _, rk := range readers {
			n, bad, end, _ := scanOutcome(c, rk, file[:k])
			ends[rk] = end
			emit(truncObs{Aid: aid, Kind: "trunc", K: k, Reader: rk, N: n, Bad: bad, End: end})
		}
		iff("trunc", k, ends)
	}
	// corruption of data and digest bytes of every section
	for si, s := range c.Scan {
		b := alphaByID[s.B]
		cb := b.Cid.Bytes()
		secStart := int(s.Src)
		dataStart := c.Layout.DataOff + int(s.Doff)
		digStart := dataStart - b.DLen // digest bytes are the tail of the CID
		_ = cb
		var positions []int
		for p := digStart; p < dataStart+len(b.Data); p++ {
			positions = append(positions, p)
		}
		_ = secStart
		for _, p := range positions {
			masks := []byte{0xff, 0x01, 0x80}
			if len(positions) > 200 { // long blocks: sample the positions, keep the ends
				if p != positions[0] && p != positions[len(positions)-1] && p%97 != 0 && p != dataStart && p != dataStart-1 {
					continue
				}
			}
			for _, m := range masks {
				mut := append([]byte{}, file...)
				mut[p] ^= m
				ends := map[string]string{}
				for _, rk := range readers {
					if strings.HasPrefix(rk, "br-skip") || rk == "br-alt" {
						continue // SkipNext does not verify (C14 holds it to positions only)
					}
					n, bad, end, _ := scanOutcome(c, rk, mut)
					ends[rk] = end
					emit(truncObs{Aid: aid, Kind: "flip", K: p, Sec: si + 1, Reader: rk, N: n, Bad: bad, End: end})
				}
				iff("flip", p, ends)
			}
		}
	}
	if truncIffOnly {
		// every byte of what precedes the first section (pragma, CARv2 header, inner CARv1 header; padding sampled)
		first := c.Layout.DataOff + c.Layout.SectionsEnd
		if len(c.Scan) > 0 {
			first = int(c.Scan[0].Src)
		}
		for p := 0; p < first && p < len(file); p++ {
			if p >= 51 && p < c.Layout.DataOff && p%89 != 0 {
				continue // data padding
			}
			for _, m := range []byte{0x01, 0x02, 0x80, 0xff} {
				mut := append([]byte{}, file...)
				mut[p] ^= m
				ends := map[string]string{}
				for _, rk := range []string{"inspect", "br-next"} {
					_, _, end, _ := scanOutcome(c, rk, mut)
					ends[rk] = end
					x.rep.eval(fmt.Sprintf("%d/hdrflip/%d/%d/%s", aid, p, m, rk), true)
				}
				iff("header-flip", p, ends)
			}
		}
	}
	// the last section announces more bytes than the archive holds (same prefix width): what is there
	// still hashes to the CID, but the section is not complete
	if truncIffOnly && len(c.Scan) > 0 {
		secStart := int(c.Scan[len(c.Scan)-1].Src)
		if sl, n := getUvarint(file[secStart:]); n > 0 {
			for _, d := range []uint64{1, 3} {
				var pre [10]byte
				if binary.PutUvarint(pre[:], sl+d) != n {
					continue
				}
				mut := append([]byte{}, file...)
				copy(mut[secStart:], pre[:n])
				ends := map[string]string{}
				for _, rk := range []string{"inspect", "br-next"} {
					_, _, end, _ := scanOutcome(c, rk, mut)
					ends[rk] = end
					x.rep.eval(fmt.Sprintf("%d/inflate/%d/%s", aid, d, rk), true)
				}
				iff("inflate", int(d), ends)
			}
		}
	}
	if truncIffOnly {
		return
	}
	obsMu.Lock()
	obsW.Write(buf.Bytes())
	obsMu.Unlock()
}

// runHashFuzz: first sentence of C02 -- for ANY byte string, every block a verifying reader
// returns hashes to its CID. Inputs: random multi-byte mutations of valid archives and raw
// random bytes. Needs no prediction: every returned block is re-hashed with go-cid.
func runHashFuzz(args []string) int {
	out := args[0]
	seed, n := int64(1), 20000
	for _, a := range args[1:] {
		if strings.HasPrefix(a, "seed=") {
			fmt.Sscan(a[5:], &seed)
		}
		if strings.HasPrefix(a, "n=") {
			fmt.Sscan(a[2:], &n)
		}
	}
	rep := newReport("hashfuzz")
	bases := [][]byte{}
	for _, secs := range [][]string{{"b1", "b4"}, {"b3", "b5", "b6"}, {"b9", "b12", "b13"}, {"b8", "b10", "b1", "b2"}} {
		for _, ver := range []int{1, 2} {
			a := Arch{Roots: []string{"b1"}, Secs: secs, Ver: ver, Idx: "mh"}
			bases = append(bases, a.build())
		}
	}
	// archives holding a block that does not verify: other data under a real CID (b18), no registered hasher (b26),
	// a sha2-256 multihash that carries one digest byte too many (b27): no verifying reader may hand these out
	for _, secs := range [][]string{{"b1", "b18", "b4"}, {"b26", "b4"}, {"b4", "b27", "b1"}} {
		for _, ver := range []int{1, 2} {
			a := Arch{Roots: []string{"b4"}, Secs: secs, Ver: ver, Idx: "mh"}
			bases = append(bases, a.build())
		}
	}
	var wg sync.WaitGroup
	per := n / 16
	for w := 0; w < 16; w++ {
		wg.Add(1)
		go func(w int) {
			defer wg.Done()
			rng := newRng(seed*1000 + int64(w))
			for i := 0; i < per; i++ {
				var in []byte
				if rng.Intn(5) == 0 {
					in = make([]byte, rng.Intn(300))
					rng.Read(in)
				} else {
					in = append([]byte{}, bases[rng.Intn(len(bases))]...)
					for e := 1 + rng.Intn(4); e > 0; e-- {
						switch rng.Intn(3) {
						case 0:
							in[rng.Intn(len(in))] ^= byte(1 + rng.Intn(255))
						case 1:
							in = in[:rng.Intn(len(in)+1)]
							if len(in) == 0 {
								in = []byte{0}
							}
						case 2:
							p := rng.Intn(len(in))
							in = append(in[:p], append([]byte{byte(rng.Intn(256))}, in[p:]...)...)
						}
					}
				}
				for _, kind := range []string{"v2.BlockReader", "root.CarReader", "internal.CarReader"} {
					var blks []blocks.Block
					func() {
						defer func() {
							if r := recover(); r != nil {
								rep.violate("verify/panic/"+kind, fmt.Sprintf("%s panicked on %x: %v", kind, in, r), map[string]any{"family": "hashfuzz", "input": fmt.Sprintf("%x", in), "reader": kind})
							}
						}()
						_, blks, _ = readAllWith(kind, in, in, false)
					}()
					rep.eval(fmt.Sprintf("%d/%d/%s", w, i, kind), len(blks) > 0)
					for _, b := range blks {
						h, err := b.Cid().Prefix().Sum(b.RawData())
						if err != nil || !h.Equals(b.Cid()) {
							rep.violate("verify/returned-block-does-not-hash/"+kind,
								fmt.Sprintf("%s returned block %s whose bytes hash to %v", kind, b.Cid(), h), map[string]any{"family": "hashfuzz", "input": fmt.Sprintf("%x", in), "reader": kind})
						}
					}
				}
			}
		}(w)
	}
	wg.Wait()
	rep.sample(map[string]any{"note": "random edits (xor byte / truncate / insert byte) of 8 valid archives, and raw random strings"}, 1)
	rep.write(out)
	if len(rep.ViolClasses) > 0 {
		return 1
	}
	return 0
}
