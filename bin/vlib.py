"""Shared plumbing for bin/check: scratch dirs, harness build, TLC runs, evidence, verdicts."""
import atexit, hashlib, json, os, re, shutil, subprocess, sys, tempfile, time

VERIF = os.path.dirname(os.path.dirname(os.path.abspath(__file__)))
REPO = os.environ.get("VERIF_REPO", "/repo")
SPEC = os.path.join(VERIF, "spec")
HARNESS = os.path.join(VERIF, "harness")
EVID = os.path.join(VERIF, "evidence")
REPLAYS = os.path.join(VERIF, "replays")
KNOWN = os.path.join(VERIF, "KNOWN_FINDINGS.txt")

GOENV = dict(os.environ, GOFLAGS="-mod=mod", GOPROXY="off", GOSUMDB="off", GOTOOLCHAIN="local",
             CGO_ENABLED=os.environ.get("CGO_ENABLED", "1"))

_scratch = None
T0 = time.time()


class Inconclusive(Exception):
    pass


def scratch():
    global _scratch
    if _scratch is None:
        base = "/dev/shm" if os.path.isdir("/dev/shm") and os.access("/dev/shm", os.W_OK) else None
        _scratch = tempfile.mkdtemp(prefix="verif-", dir=base)
        atexit.register(lambda: shutil.rmtree(_scratch, ignore_errors=True))
    return _scratch


def tier():
    t = os.environ.get("VERIF_TIER", "quick")
    return t if t in ("quick", "thorough") else "quick"


def seed():
    try:
        return int(os.environ.get("VERIF_SEED", "1"))
    except ValueError:
        return 1


def run(cmd, timeout=None, cwd=None, env=None, stdout=None, check=False, input=None):
    p = subprocess.run(cmd, cwd=cwd, env=env or GOENV, timeout=timeout, stdout=stdout or subprocess.PIPE,
                       stderr=subprocess.STDOUT, text=True, input=input)
    if check and p.returncode != 0:
        raise Inconclusive("command failed (%d): %s\n%s" % (p.returncode, " ".join(cmd), (p.stdout or "")[-3000:]))
    return p


def build_harness(tags="verif", race=False, name="vh"):
    """Builds the harness against /repo's current working tree (replace directives)."""
    out = os.path.join(scratch(), name)
    # a private copy of the module so that go may rewrite go.mod/go.sum without dirtying /verif
    hdir = os.path.join(scratch(), "harness-src")
    if not os.path.isdir(hdir):
        shutil.copytree(HARNESS, hdir)
        if REPO != "/repo":
            gm = open(os.path.join(hdir, "go.mod")).read().replace("=> /repo", "=> " + REPO)
            open(os.path.join(hdir, "go.mod"), "w").write(gm)
    cmd = ["go", "build", "-tags", tags, "-o", out]
    if race:
        cmd.insert(2, "-race")
    if os.environ.get("VERIF_COVER"):
        # maintenance only (bin/coverage): which go-car functions do the checks execute at all?
        # the main package must be instrumented too, or the exit hook that writes the counters is not linked
        cmd[2:2] = ["-cover", "-coverpkg=verifharness,github.com/ipld/go-car/...,github.com/ipld/go-car/v2/...,github.com/ipld/go-car/cmd/..."]
    cmd.append(".")
    p = run(cmd, cwd=hdir, timeout=900)
    if p.returncode != 0:
        raise Inconclusive("harness build failed:\n" + p.stdout[-4000:])
    return out


def check_alphabet(vh):
    d = os.path.join(scratch(), "alpha")
    os.makedirs(d, exist_ok=True)
    run([vh, "gen-alphabet", d], check=True, timeout=120)
    a = open(os.path.join(d, "Alphabet.tla")).read()
    b = open(os.path.join(SPEC, "Alphabet.tla")).read()
    if a != b:
        raise Inconclusive("spec/Alphabet.tla is stale with respect to the real encodings; run `vh gen-alphabet spec`")


TLC_STATS = re.compile(r"(\d+) states generated, (\d+) distinct states found, (\d+) states left on queue")


def run_tlc(module, cfg, out_name=None, workers=8, timeout=900, extra=None, env=None, simulate=None, heap=None, tag=""):
    """Runs TLC in a scratch copy of spec/. Returns dict(ok, states, distinct, out, violated, text_tail)."""
    sdir = os.path.join(scratch(), "spec-%s-%s%s" % (module, os.path.basename(cfg).replace(".cfg", ""), tag))
    if os.path.isdir(sdir):
        shutil.rmtree(sdir)
    shutil.copytree(SPEC, sdir)
    out = os.path.join(scratch(), out_name or ("tlc-%s-%s%s.out" % (module, os.path.basename(cfg), tag)))
    # -checkpoint 0: a checkpoint recomputes the behaviour's length and fails beyond 65535 states, which
    # trace / observation validation (one long behaviour) exceeds
    cmd = ["timeout", str(timeout), "tlc", "-workers", str(workers), "-metadir", os.path.join(sdir, "md"),
           "-checkpoint", "0", "-config", cfg]
    if simulate:
        cmd += ["-simulate", simulate]
    if extra:
        cmd += extra
    cmd.append(module + ".tla")
    e = dict(os.environ)
    if env:
        e.update(env)
    # TLC leaves an empty tlc-<n> directory in java.io.tmpdir per run: keep it inside the scratch copy
    os.makedirs(os.path.join(sdir, "jtmp"), exist_ok=True)
    e["JAVA_TOOL_OPTIONS"] = (e.get("JAVA_TOOL_OPTIONS", "") + " -Djava.io.tmpdir=" + os.path.join(sdir, "jtmp")).strip()
    t0 = time.time()
    with open(out, "w") as f:
        p = subprocess.run(cmd, cwd=sdir, stdout=f, stderr=subprocess.STDOUT, env=e)
    res = {"out": out, "rc": p.returncode, "states": 0, "distinct": 0, "wall": time.time() - t0, "violated": None,
           "cmd": " ".join(cmd)}
    tail = []
    with open(out, errors="replace") as f:
        for line in f:
            if line.startswith('"'):
                continue
            tail.append(line)
            if len(tail) > 400:
                tail = tail[-200:]
            m = TLC_STATS.search(line)
            if m:
                res["states"], res["distinct"] = int(m.group(1)), int(m.group(2))
            if "is violated" in line or "Error: Deadlock" in line or "Temporal properties were violated" in line:
                res["violated"] = line.strip()
    res["tail"] = "".join(tail[-60:])
    res["ok"] = p.returncode == 0 and res["violated"] is None and "Model checking completed. No error" in "".join(tail) \
        or (simulate is not None and p.returncode == 0 and res["violated"] is None)
    shutil.rmtree(os.path.join(sdir, "md"), ignore_errors=True)
    if p.returncode == 124:
        raise Inconclusive("TLC timed out after %ss: %s" % (timeout, res["cmd"]))
    return res


def tlc_must_pass(res, what):
    """A TLC failure on the specification alone is a defect of the machinery or a design-level
    counterexample that has not been reproduced on the code: inconclusive, never a violation."""
    if not res["ok"]:
        raise Inconclusive("TLC did not pass on %s (rc=%s, %s)\n%s" % (what, res["rc"], res["violated"], res["tail"]))


def load_known():
    known, fixed = [], []
    if os.path.exists(KNOWN):
        for line in open(KNOWN):
            line = line.strip()
            if line.startswith("known:"):
                m = re.match(r"known:\s+property=(\S+)\s+class=(\S+)\s+(.*)", line)
                if m:
                    known.append({"property": m.group(1), "class": m.group(2), "what": m.group(3)})
            elif line.startswith("fixed:"):
                fixed.append(line)
    return known, fixed


def read_report(path):
    with open(path) as f:
        return json.load(f)


def finish(pid, level, coverage, violations, assumptions=None, inconclusive=None, drift=None):
    """violations: list of {class, detail, replay}. Writes evidence, prints verdict lines, exits."""
    os.makedirs(EVID, exist_ok=True)
    known, _ = load_known()
    kn = {k["class"]: k for k in known if k["property"] == pid}
    new, seen_known = [], {}
    for v in violations:
        if v["class"] in kn:
            seen_known.setdefault(v["class"], v)
        else:
            new.append(v)
    for cls, v in sorted(seen_known.items()):
        print("KNOWN-FINDING: property=%s %s [class=%s]" % (pid, kn[cls]["what"], cls))
    lines = []
    if new:
        hist = {}
        for v in new:
            hist[v["class"]] = hist.get(v["class"], 0) + 1
        print("  violation classes: " + ", ".join("%s x%d" % kv for kv in sorted(hist.items())))
        os.makedirs(REPLAYS, exist_ok=True)
        firsts, rest, seen_cls = [], [], set()
        for v in new:    # one representative of every class first, so that no class goes unreported
            (rest if v["class"] in seen_cls else firsts).append(v)
            seen_cls.add(v["class"])
        for v in (firsts + rest)[:max(20, len(firsts))]:
            h = hashlib.sha1(json.dumps(v, sort_keys=True).encode()).hexdigest()[:10]
            path = os.path.join(REPLAYS, "%s-%s.json" % (pid, h))
            with open(path, "w") as f:
                json.dump({"property": pid, "violation": v}, f, indent=1)
            lines.append("VIOLATION property=%s replay=%s" % (pid, path))
            print("  class=%s: %s" % (v["class"], v["detail"][:600]))
    cov = dict(coverage)
    if drift:
        cov["model_drift"] = drift[:20]
        level = "exploration" if level == "model_checking" else level
    cov["known_findings_seen"] = sorted(seen_known)
    ev = {"property_id": pid, "tier": tier(), "seed": seed(), "level": level, "coverage": cov,
          "assumptions": assumptions or [], "wall_s": round(time.time() - T0, 2), "violations": len(new)}
    if inconclusive:
        ev["coverage"]["inconclusive"] = inconclusive[:20]
    with open(os.path.join(EVID, pid + ".json"), "w") as f:
        json.dump(ev, f, indent=1)
        f.write("\n")
    for l in lines:
        print(l)
    if new:
        sys.exit(1)
    if inconclusive:
        print("INCONCLUSIVE property=%s: %s" % (pid, "; ".join(inconclusive[:3])))
        sys.exit(2)
    print("OK property=%s tier=%s evaluations=%s wall=%.1fs" % (pid, tier(), cov.get("evaluations", cov.get("states")), time.time() - T0))
    sys.exit(0)


def build_car(link="workspace"):
    """Builds the `car` CLI from /repo/cmd against /repo and /repo/v2 (scratch -modfile with replace
    directives: /repo itself is never written, not even go.sum). link="released": against the released
    library versions that cmd/go.mod names (module cache) -- how the repository's own build links it."""
    if os.environ.get("VERIF_CLI_LINK") == "released":
        link = "released"
    out = os.path.join(scratch(), "car" if link == "workspace" else "car-released")
    if os.path.exists(out):
        return out
    mf = os.path.join(scratch(), "car-%s.mod" % link)
    gm = open(os.path.join(REPO, "cmd", "go.mod")).read()
    if link != "released":
        gm += "\nreplace github.com/ipld/go-car => %s\n\nreplace github.com/ipld/go-car/v2 => %s\n" % (REPO, os.path.join(REPO, "v2"))
    open(mf, "w").write(gm)
    sums = set()
    for m in ("", "v2", "cmd"):
        p = os.path.join(REPO, m, "go.sum")
        if os.path.exists(p):
            sums.update(open(p).read().splitlines())
    open(os.path.join(scratch(), "car-%s.sum" % link), "w").write("\n".join(sorted(s for s in sums if s.strip())) + "\n")
    cov = ["-cover", "-coverpkg=github.com/ipld/go-car/...,github.com/ipld/go-car/v2/...,github.com/ipld/go-car/cmd/..."] \
        if os.environ.get("VERIF_COVER") else []
    p = run(["go", "build"] + cov + ["-modfile", mf, "-o", out, "./car"], cwd=os.path.join(REPO, "cmd"), timeout=900)
    if p.returncode != 0:
        raise Inconclusive("car CLI build failed:\n" + p.stdout[-3000:])
    return out
