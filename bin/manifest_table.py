chk("C04", "model_checking",
    "TLC enumerates the complete reachable graph of the P-layer Store.tla (append-only content-addressed map with typestate) for the bounded "
    "alphabet and checks its invariants/action properties; every operation sequence up to the depth bound and every transition of that graph is "
    "replayed on the real blockstore.ReadWrite and storage.StorageCar with the abstract state and all observers compared after every step.",
    "Exhaustive within: alphabet of 7 put blocks (equal multihash/other codec, equal digest/other hash function, identity, oversize), MaxSecs 3 (4 thorough), "
    "32 option sets, histories <= 3 (4). " + TB,
    "TLA+ P-layer spec + TLC state graph replayed into the real stores (conformance by projection after every step)", "DESIGN.md §3 C04")
chk("C05", "model_checking",
    "The file left after every step of every bounded put history is compared byte-for-byte (index: record multiset + canonical order) with the layout "
    "operator FileOf of Store.tla, whose header arithmetic TLC checks as invariant LayoutOK; finished files are given to Inspect(true) and VerifyCar.",
    "Exhaustive within: 8 blocks incl. all varint-boundary lengths, 4 layouts, identity on/off, v1/v2, 5 root lists, histories <= 3. CLI producers are covered under C19. " + TB,
    "TLA+ layout operators + TLC graph replay with byte comparison against the reference encoder", "DESIGN.md §3 C05")
chk("C12", "model_checking",
    "All interleavings of puts, Discard/Finalize interruptions and reopen variants up to the bound are taken from the TLC graph of Store.tla and replayed; the final "
    "file is compared byte-for-byte with the uninterrupted real session and with the specification; refused reopens must leave the bytes untouched.",
    "Exhaustive within: 3 blocks (68-byte CID, empty-data, identity), interleavings <= 5 (6 thorough), 18 (26) option sets incl. a reader-side section limit below the stored sections, plus a second configuration with a 16 KiB block followed by sections and a block that does not verify, 4 root lists incl. duplicates, 8 reopen variants, both stores. " + TB,
    "TLA+ spec (Reopen action) + TLC graph replay with byte comparison", "DESIGN.md §3 C12")
chk("C14", "model_checking",
    "Reader.tla models the block reader's incremental offset bookkeeping; TLC checks it against the closed-form scan offsets for every bounded archive and every "
    "Next/SkipNext string, and every maximal behaviour is replayed on the real BlockReader over three source kinds with CID sequence, metadata, bytes at "
    "SourceOffset and source consumption compared.",
    "Exhaustive within: <= 3 sections over 8 (13 thorough) blocks, 5 root lists incl. identity-CID roots, 6 containers incl. non-canonical headers, all choice strings, 10 source kinds (short reads, WithTrustedCAR, counting ByteReader, data-with-EOF, the payload reader of a v2.Reader). " + TB,
    "TLA+ state machine of BlockReader + TLC behaviours replayed on the real reader", "DESIGN.md §3 C14")
chk("C02", "fault_enumeration",
    "Every proper prefix and every data/digest byte corruption of every TLC-enumerated archive is run through every verifying/scanning reader; TLC validates each recorded "
    "observation against the P-layer relation ReaderObs!Allowed (prefix of intact blocks, error unless the cut is exactly on a section boundary).",
    "Exhaustive over cut offsets and byte positions for archives of <= 2 (3) sections; random multi-edit inputs for the 'any byte string' clause. " + TB,
    "recorded observations of the real readers validated by TLC against a TLA+ outcome relation", "DESIGN.md §3 C02")
chk("C03", "model_checking",
    "ArchiveCases.tla gives, for every bounded archive, the exact offset set every index kind must report for 13 probe CIDs; all index generation/loading entry points over "
    "three source kinds and the option matrix are compared with it and with the bytes at each offset.",
    "Exhaustive within: <= 3 sections, three block alphabets, 5 root lists, 8 containers incl. a non-canonical header; plus one archive of 70 000 sections. " + TB,
    "TLA+ operators as oracle, TLC-enumerated archives replayed into index generation", "DESIGN.md §3 C03")
chk("C07", "model_checking",
    "ArchiveOps.tla defines read-only answers as functions of the sequential scan; every bounded archive x option set x front-end (NewReadOnly, OpenReadOnly, OpenReadable, supplied index) is queried "
    "for 13 probe CIDs and compared, including the AllKeysChan sequence and Roots.",
    "Exhaustive within the same archive bounds as C03; sources incl. ReaderAt-only values and readers that were read from before; write methods refused; limit refusal. " + TB,
    "TLA+ scan-derived answers vs the real read-only stores", "DESIGN.md §3 C07")
chk("C13", "model_checking",
    "ArchiveOps!Stats is compared field by field with Reader.Inspect on every bounded archive; Inspect's success is compared with a verifying scan on valid archives, on every truncation/corruption "
    "of the C02 set, every flip of a byte in front of the first section, an over-announced last section, index-codec damage, and archives holding a block that nothing can verify.",
    "Exhaustive within the archive bounds (four block alphabets); corruption part enumerated by the check itself (harness mode iff). " + TB,
    "TLA+ Stats operator as oracle + iff-with-scan on enumerated corruptions", "DESIGN.md §3 C13")
chk("C01", "model_checking",
    "Every bounded archive is read by every sequential reader and compared with the specification's scan; every store writer's payload (all Store.tla histories) is compared byte-for-byte with the reference encoding.",
    "Exhaustive within the archive and store bounds; plus a 5 MiB block and a 70 000-section archive through every reader / loader. " + TB,
    "TLA+ archive/scan operators + replay into all readers and writers", "DESIGN.md §3 C01")
chk("C11", "model_checking",
    "Index.tla defines the canonical serial form and the lookups as functions of the record multiset; TLC checks order independence over all permutations; every load order is replayed on both codecs "
    "(determinism over 8 serializations, canonical bucket/entry order, byte count, round trip, lookups, iteration); flattened vs regenerated indexes are compared on every finished file of the Store graphs.",
    "Exhaustive within: load sequences <= 3 (4) over 11 records; read-back also through short-read sources, and every sequence loaded in two calls at every split point. " + TB,
    "TLA+ canonical-form spec + TLC load orders replayed on the index codecs", "DESIGN.md §3 C11")
chk("C10", "model_checking",
    "Transform.tla models wrap / extract / replace-roots as actions on an abstract file; TLC checks payload invariance and extract(wrap(x)) = x over the complete bounded behaviour tree, and every "
    "behaviour is replayed on real files with all bytes compared against the reference encoding after every step (and unchanged bytes on refusal).",
    "Exhaustive within: files <= 2 sections over 6 blocks, 5 root lists, 8 containers incl. a null-padded CARv1 and non-canonical headers, 13 operations (WrapV1 with and without StoreIdentityCIDs), behaviours of 2 (3) steps; plus WrapV1 of a 70 000-section archive. " + TB,
    "TLA+ action spec + TLC behaviours replayed on real files with byte comparison", "DESIGN.md §3 C10")
chk("C20", "model_checking",
    "Deferred.tla models lazy creation, callback bookkeeping and the closed typestate; TLC checks Lazy/OnceFiresOnce on the complete bounded behaviour tree; every behaviour is replayed on the real "
    "DeferredCarWriter with result, callback log and output bytes compared after every step, and the final output compared with a direct writer.",
    "Exhaustive within: histories of 5 (6) operations over 8 operations, 9 configurations (incl. a pre-existing longer file at the path, explicit CARv2 on a plain stream (refused) and on a stream that is an io.WriterAt). " + TB,
    "TLA+ state machine + TLC behaviours replayed on the real deferred writer", "DESIGN.md §3 C20")
chk("C06", "fault_enumeration",
    "Every crash point (operation boundary and byte within every write) of recorded real sessions is materialised, reopened with the real resumption code, continued and finalized; TLC validates each "
    "observation against CrashObs!CrashSafe and the recorded write logs against the I-layer write protocol WriteProto.tla.",
    "Exhaustive over crash points of 126 (220 thorough) sessions incl. sessions resumed from a crash inside Finalize and inside a reopen's own header clearing, and thirty-block sessions whose index exceeds a kilobyte; crash = prefix of issued writes, last possibly torn. " + TB,
    "recorded crash-point observations validated by TLC against a TLA+ relation; write-log trace validation against a TLA+ protocol spec", "DESIGN.md §3 C06")
chk("C16", "fault_enumeration",
    "A transient write fault is injected at every write of a session and every persisted-byte count, followed by every continuation; TLC validates each observation against FaultObs!FaultSafe.",
    "Exhaustive over fault points of 8 (16) storage sessions incl. a plain stream target, and over kernel short writes (RLIMIT_FSIZE) at every file offset 0..699 of 8 blockstore sessions incl. PutMany batches; two-fault sessions for both; resumed sessions; the deferred writer for a path (lazy creation, failed Close). " + TB,
    "recorded fault-point observations validated by TLC against a TLA+ relation", "DESIGN.md §3 C16")
chk("C08", "model_checking",
    "Conc.tla models the lock discipline (one action per critical-section boundary) and is model-checked for conflict freedom, linearizability, dedupe and termination; real executions are bound to it three ways: "
    "race-detector stress runs, gate-driven exploration of lock-gate orders, and TLC validation of every recorded history (with hook-recorded linearization points) against ConcTrace.tla.",
    "Model: 3 goroutines x <= 3 ops exhaustive. Real code: sampled schedules (race detector) + exhaustive gate orders of 6 small programs. " + TB + " Go race detector.",
    "TLA+ lock-discipline model + history trace validation by TLC + race detector + gate-driven schedule exploration", "DESIGN.md §3 C08")
chk("C17", "model_checking",
    "ExtractFS.tla models the extractor step by step over a POSIX-like file system with symlink resolution; TLC checks containment on all bounded archives (and yields the symlink-then-file counterexample "
    "without the final-component guard); every archive is built as a real UnixFS DAG and extracted by the built car binary in a sandbox whose outside is snapshotted before/after.",
    "Exhaustive within: <= 2 (3) top-level entries, 29 leaf entry kinds + directories, 4 pre-populated states, one/two roots; plus bare file roots over entries named `unknown` and 6 pre-populated states, deep directory names, same-name triples with missing blocks, `--path` lookups, the library entry lib.ExtractFromFile; permission bits are part of the outside snapshot. " + TB + " The kernel's path resolution.",
    "TLA+ file-system model + TLC-enumerated hostile archives extracted by the real binary with snapshot comparison", "DESIGN.md §3 C17")
chk("C18", "exploration",
    "Tree.tla gives the tree extraction must produce for each source tree and wrapping mode (RoundTrip checked by TLC); a seeded sample of the TLC-enumerated (tree, configuration) cases is run through the built "
    "car create / car root / car extract and compared entry by entry.",
    "Model-generated cases, sampled (quick: 15% of 16k cases; trees with a file whose bytes are another node's block are always run); source path spelled /abs, `.` or `dir/.`; output directory fresh, through a symbolic link, or over a stale earlier extraction. Chunking/sharding are go-unixfsnode's. " + TB,
    "TLA+ tree model as case generator and oracle + real CLI round trip", "DESIGN.md §3 C18")
chk("C19", "exploration",
    "Cli.tla defines every sub-command as an operator on abstract archives (filter with the store's de-duplication, append, index, list, get-block, concat) with closure predicates; all TLC-enumerated "
    "archives are run through the built car binary, outputs compared with the reference encoding of the operator's result, and every emitted archive checked with car inspect --full / car verify.",
    "All sub-commands on all bounded archives; filter flag combinations sampled; get-dag on all DAGs over 3 nodes (4: sampled / thorough all) x selectors x missing blocks x --strict against Traversal.tla; the filter configuration also with a CLI linked against the released library. " + TB,
    "TLA+ operators as oracle + real CLI runs with closure under the tool's own verifier", "DESIGN.md §3 C19")
chk("C15", "model_checking",
    "Traversal.tla is an explicit DFS machine (selector, visit-once, link budget) over all small DAGs; its predicted load sequence agrees with the real engine (drift check) and every case is run through all "
    "traversal writers of both modules, with the observed loads as oracle for content/order and all announced sizes, counts, callbacks and Dump/Write compared.",
    "Exhaustive within: DAGs over 4 nodes, 8 selectors (all, depth 1..3, 4 field paths), visit-once on/off, 3 budgets; two (root, selector) pairs for the root module; one block under two codecs; identity-CID and empty leaves; one UnixFS file through the unixfs ADL (observed loads as oracle). " + TB,
    "TLA+ DFS model + TLC-enumerated DAGs replayed through the traversal writers", "DESIGN.md §3 C15")
chk("C09", "exploration",
    "Parser.tla gives the scanner's termination/no-big-allocation argument (TLC, all token strings up to the bound) and the exact-limit matrix, which is run on every entry point; panics, hangs and allocation on "
    "arbitrary bytes are decided by executing field-aware mutations and random strings through all entry points in child processes.",
    "Limit matrix exhaustive over entry points; byte-level part sampled (quick 11k inputs x 21 entry points, thorough ~1M). " + TB,
    "TLA+ scanner model + limit matrix replay + child-process fuzzing of all parsing entry points", "DESIGN.md §3 C09")
