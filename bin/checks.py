"""One function per property: check_<id>()."""
import json, os, subprocess, sys, time
import vlib
from vlib import Inconclusive, run_tlc, tlc_must_pass, build_harness, check_alphabet, finish, tier, seed, scratch

TRUSTED = ["TLC 1.8.0", "the TLA+ specification text under spec/", "harness/refcodec.go (independent reference codec)",
           "go-cid / go-multihash (CID parsing and hashing)", "alphabet generator (spec/Alphabet.tla is regenerated and compared on every run)"]


def harness_run(vh, args, timeout=3600):
    """Runs a harness sub-command that writes a report; returns (rc, report)."""
    rep = os.path.join(scratch(), "report-%d.json" % int(time.time() * 1e6))
    a = [vh, args[0]] + [x if x != "@REPORT" else rep for x in args[1:]]
    try:
        p = subprocess.run(a, timeout=timeout, stdout=subprocess.PIPE, stderr=subprocess.STDOUT, text=True, env=vlib.GOENV)
    except subprocess.TimeoutExpired:
        raise Inconclusive("harness timed out: " + " ".join(a[:3]))
    if not os.path.exists(rep):
        raise Inconclusive("harness produced no report (rc=%d): %s\n%s" % (p.returncode, " ".join(a[:3]), (p.stdout or "")[-3000:]))
    r = vlib.read_report(rep)
    if p.returncode not in (0, 1):
        raise Inconclusive("harness failed (rc=%d): %s\n%s" % (p.returncode, r.get("inconclusive"), (p.stdout or "")[-2000:]))
    return p.returncode, r


def merge_cov(model, emit, rep, extra=None):
    cov = {
        "states": model["distinct"], "transitions": model["states"],
        "traces_validated_against_impl": rep["evaluations"],
        "evaluations": rep["evaluations"], "distinct_nontrivial": rep["distinct_nontrivial"],
        "samples": rep["samples"] or [], "counters": rep["counters"],
        "tlc_model_cmd": model["cmd"], "tlc_emit_states": emit["distinct"] if emit else None,
        "trusted_base": TRUSTED,
    }
    if extra:
        cov.update(extra)
    return cov


# ---------------------------------------------------------------------------------------------
# Store family: C04, C05, C12

def store_family(pid, cfg, replay_args, rule, exhaustive_note, workers=8):
    vh = build_harness()
    check_alphabet(vh)
    model = run_tlc("MCStore", cfg + ".cfg", timeout=1500, workers=workers)
    tlc_must_pass(model, "Store.tla P-layer invariants and action properties (%s)" % cfg)
    emit = run_tlc("MCStore", cfg + "_emit.cfg", timeout=1500, workers=workers)
    tlc_must_pass(emit, "Store.tla emitter (%s)" % cfg)
    rc, rep = harness_run(vh, ["store-replay", emit["out"], "@REPORT", "seed=%d" % seed()] + replay_args)
    cov = merge_cov(model, emit, rep, {"rule": rule, "exhaustive": True, "explanation": exhaustive_note,
                                       "replay_args": replay_args})
    if not rep["samples"]:
        cov["samples"] = [{"note": "no path sampled"}]
    finish(pid, "model_checking", cov, rep["violations"] or [],
           assumptions=["observations are made through the public API and by decoding the file with the reference decoder",
                        "no I/O errors occur (faults are C16)", "single goroutine (concurrency is C08)"],
           inconclusive=rep.get("inconclusive"), drift=rep.get("model_drift"))


def check_C04():
    if tier() == "quick":
        store_family("C04", "Store_sem", ["depth=3", "tail=1", "cover=1", "c05=0"],
                     "every operation sequence of length <= 3 through the TLC state graph of Store.tla (32 option sets x 2 root lists x "
                     "{blockstore.ReadWrite, storage.StorageCar}) plus, for every (state, operation) pair of the graph, a shortest sequence "
                     "reaching it; after every step the real object is projected to an abstract state (sections decoded from the file, "
                     "closed-ness probe) and Has/Get/GetSize/AllKeysChan/Roots are compared for 9 query CIDs. distinct = distinct "
                     "(kind, options, roots, op sequence) of length >= 2",
                     "TLC enumerates the complete reachable P-layer graph for MaxSecs=3; the replayer executes all paths <= depth and all transitions")
    else:
        store_family("C04", "Store_sem4", ["depth=4", "tail=2", "cover=1", "c05=0"],
                     "as quick, with MaxSecs=4 and every operation sequence of length <= 4", "complete graph for MaxSecs=4; all paths <= 4; all transitions",
                     workers=16)


def check_C05():
    if tier() == "quick":
        store_family("C05", "Store_lay", ["depth=3", "tail=0", "cover=1", "c05=1", "ops=put,putmany,finalize,finalize_ro,close,discard"],
                     "every put history of length <= 3 (incl. none) over blocks whose section lengths sit on the varint boundaries "
                     "(127/128/16383/16384), empty data and identity CIDs x 4 layouts (data/index padding, both codecs) x StoreIdentityCIDs x "
                     "WriteAsCarV1 x 5 root lists x both stores; after every step the file bytes are compared with the image the "
                     "specification's FileOf gives (pragma, header fields, paddings, payload, index record multiset, canonical order), and every "
                     "finished file is given to Reader.Inspect(true) and lib.VerifyCar",
                     "complete P-layer graph for MaxSecs=2; all paths and all transitions replayed")
    else:
        store_family("C05", "Store_lay3", ["depth=4", "tail=0", "cover=1", "c05=1", "ops=put,putmany,finalize,finalize_ro,close,discard"],
                     "as quick with MaxSecs=3 and histories <= 4", "complete graph MaxSecs=3", workers=16)


def check_C12():
    if tier() == "quick":
        store_family("C12", "Store_res", ["depth=5", "tail=0", "cover=0", "c05=1", "c12=1", "ops=put,discard,finalize,reopen"],
                     "every interleaving of {Put x3 blocks, Discard, Finalize, reopen(same | other root | extra root | fewer roots | other data "
                     "padding | other version)} of length <= 5 x 24 option sets x 4 root lists (incl. duplicate roots) x both stores; the final file "
                     "of each resumed session is compared byte-for-byte with the uninterrupted real session and with the specification's layout; "
                     "a refused reopen must leave the file bytes unchanged",
                     "complete P-layer graph for MaxSecs=4; all such paths <= 5 replayed")
    else:
        store_family("C12", "Store_res", ["depth=7", "tail=0", "cover=1", "c05=1", "c12=1", "ops=put,discard,finalize,reopen"],
                     "as quick with interleavings of length <= 7", "complete graph MaxSecs=4; all such paths <= 7", workers=16)


def replay_generic(pid, path):
    rec = json.load(open(path))
    v = rec["violation"]
    fam = (v.get("replay") or {}).get("family")
    vh = build_harness()
    if fam == "store":
        cfg = {"C04": "Store_sem", "C05": "Store_lay", "C12": "Store_res"}.get(pid, "Store_sem")
        if tier() == "thorough":
            cfg = {"C04": "Store_sem4", "C05": "Store_lay3"}.get(pid, cfg)
        emit = run_tlc("MCStore", cfg + "_emit.cfg", timeout=1500)
        tlc_must_pass(emit, "emitter")
        rp = os.path.join(scratch(), "one.json")
        json.dump(v["replay"], open(rp, "w"))
        p = subprocess.run([vh, "store-replay-one", emit["out"], rp], stdout=subprocess.PIPE, stderr=subprocess.STDOUT, text=True)
        print(p.stdout)
        if p.returncode == 1:
            print("VIOLATION property=%s replay=%s" % (pid, path))
        sys.exit(p.returncode)
    rp = os.path.join(scratch(), "one.json")
    json.dump(v["replay"], open(rp, "w"))
    p = subprocess.run([vh, "replay-one", rp], stdout=subprocess.PIPE, stderr=subprocess.STDOUT, text=True)
    print(p.stdout)
    if p.returncode == 1:
        print("VIOLATION property=%s replay=%s" % (pid, path))
    sys.exit(p.returncode)


# ---------------------------------------------------------------------------------------------
# generic: TLC model config + TLC emitter config + harness replay sub-command

def emit_family(pid, module, cfg, subcmd, rule, note, level="model_checking", extra_args=None, workers=8,
                assumptions=None, model_cfg=None, timeout=1800):
    vh = build_harness()
    check_alphabet(vh)
    model = run_tlc(module, (model_cfg or cfg) + ".cfg", timeout=timeout, workers=workers)
    tlc_must_pass(model, "%s invariants (%s)" % (module, cfg))
    emit = run_tlc(module, cfg + "_emit.cfg", timeout=timeout, workers=workers)
    tlc_must_pass(emit, "%s emitter (%s)" % (module, cfg))
    rc, rep = harness_run(vh, [subcmd, emit["out"], "@REPORT", "seed=%d" % seed()] + (extra_args or []))
    cov = merge_cov(model, emit, rep, {"rule": rule, "exhaustive": True, "explanation": note})
    if not cov["samples"]:
        cov["samples"] = [{"note": "no case sampled"}]
    finish(pid, level, cov, rep["violations"] or [], assumptions=assumptions or [],
           inconclusive=rep.get("inconclusive"), drift=rep.get("model_drift"))


def check_C14():
    t = "Quick" if tier() == "quick" else "Thor"
    emit_family("C14", "MCReader", "Reader_" + t, "reader-replay",
                "every archive with <= 3 sections over the block alphabet (incl. CIDv0, identity, empty data, varint-boundary lengths) x 3 root lists x "
                "{CARv1, CARv2, CARv2 padded+sorted index, CARv2 index-less with 1413 bytes of data padding} x every Next/SkipNext choice string, "
                "each replayed on bytes.Reader, a plain counting io.Reader and *os.File; distinct = behaviours that mix both calls",
                "TLC enumerates the complete behaviour tree of Reader.tla and checks OffsetExact/NoOverread/SameCidSequence on it; every maximal behaviour is replayed",
                assumptions=["archives are built by the reference encoder; the spec's offsets are compared with BlockMetadata and with the bytes at SourceOffset"])
