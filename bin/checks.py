"""One function per property: check_<id>()."""
import json, os, subprocess, sys, time
import vlib
from vlib import Inconclusive, run_tlc, tlc_must_pass, build_harness, check_alphabet, finish, tier, seed, scratch

TRUSTED = ["TLC 1.8.0", "the TLA+ specification text under spec/", "harness/refcodec.go (independent reference codec)",
           "go-cid / go-multihash (CID parsing and hashing)", "alphabet generator (spec/Alphabet.tla is regenerated and compared on every run)"]


def harness_run(vh, args, timeout=3600):
    """Runs a harness sub-command that writes a report; returns (rc, report)."""
    rep = os.path.join(scratch(), "report-%d.json" % int(time.time() * 1e6))
    a = [vh, args[0]] + [x if x != "@REPORT" else rep for x in args[1:]]
    try:
        p = subprocess.run(a, timeout=timeout, stdout=subprocess.PIPE, stderr=subprocess.STDOUT, text=True, env=vlib.GOENV)
    except subprocess.TimeoutExpired:
        raise Inconclusive("harness timed out: " + " ".join(a[:3]))
    if not os.path.exists(rep):
        raise Inconclusive("harness produced no report (rc=%d): %s\n%s" % (p.returncode, " ".join(a[:3]), (p.stdout or "")[-3000:]))
    r = vlib.read_report(rep)
    if p.returncode not in (0, 1):
        raise Inconclusive("harness failed (rc=%d): %s\n%s" % (p.returncode, r.get("inconclusive"), (p.stdout or "")[-2000:]))
    return p.returncode, r


def merge_cov(model, emit, rep, extra=None):
    cov = {
        "states": model["distinct"], "transitions": model["states"],
        "traces_validated_against_impl": rep["evaluations"],
        "evaluations": rep["evaluations"], "distinct_nontrivial": rep["distinct_nontrivial"],
        "samples": rep["samples"] or [], "counters": rep["counters"],
        "tlc_model_cmd": model["cmd"], "tlc_emit_states": emit["distinct"] if emit else None,
        "trusted_base": TRUSTED,
    }
    if extra:
        cov.update(extra)
    return cov


# ---------------------------------------------------------------------------------------------
# Store family: C04, C05, C12

def store_family(pid, cfg, replay_args, rule, exhaustive_note, workers=8, extra_cfgs=None):
    vh = build_harness()
    check_alphabet(vh)
    model = run_tlc("MCStore", cfg + ".cfg", timeout=1500, workers=workers)
    tlc_must_pass(model, "Store.tla P-layer invariants and action properties (%s)" % cfg)
    emit = run_tlc("MCStore", cfg + "_emit.cfg", timeout=1500, workers=workers)
    tlc_must_pass(emit, "Store.tla emitter (%s)" % cfg)
    rc, rep = harness_run(vh, ["store-replay", emit["out"], "@REPORT", "seed=%d" % seed()] + replay_args)
    further = {}
    for xcfg, xargs, what in (extra_cfgs or []):
        xm = run_tlc("MCStore", xcfg + ".cfg", timeout=1500, workers=workers)
        tlc_must_pass(xm, "Store.tla P-layer invariants and action properties (%s)" % xcfg)
        xe = run_tlc("MCStore", xcfg + "_emit.cfg", timeout=1500, workers=workers)
        tlc_must_pass(xe, "Store.tla emitter (%s)" % xcfg)
        rcx, repx = harness_run(vh, ["store-replay", xe["out"], "@REPORT", "seed=%d" % seed()] + xargs)
        rep["evaluations"] += repx["evaluations"]
        rep["distinct_nontrivial"] += repx["distinct_nontrivial"]
        rep["violations"] = (rep["violations"] or []) + (repx["violations"] or [])
        rep["inconclusive"] = (rep.get("inconclusive") or []) + (repx.get("inconclusive") or [])
        rep["model_drift"] = (rep.get("model_drift") or []) + (repx.get("model_drift") or [])
        further[xcfg] = "%s: %d states, %d replayed paths" % (what, xm["distinct"], repx["evaluations"])
    cov = merge_cov(model, emit, rep, {"rule": rule, "exhaustive": True, "explanation": exhaustive_note,
                                       "replay_args": replay_args})
    if further:
        cov["further_configurations"] = further
    if pid == "C04" and "_storei" in globals():
        cov["i_layer_StoreI_refinement"] = _storei
    if not rep["samples"]:
        cov["samples"] = [{"note": "no path sampled"}]
    finish(pid, "model_checking", cov, rep["violations"] or [],
           assumptions=["observations are made through the public API and by decoding the file with the reference decoder",
                        "no I/O errors occur (faults are C16)", "single goroutine (concurrency is C08)"],
           inconclusive=rep.get("inconclusive"), drift=rep.get("model_drift"))


def storei_models():
    """I-layer StoreI.tla refines the P-layer Store.tla (both store kinds); the original digest-only
    de-duplication test is kept as a documented design-level counterexample."""
    out = {}
    for kind in ("blockstore", "storage"):
        m = run_tlc("MCStoreI", "StoreI_%s_digestFALSE.cfg" % kind, timeout=1200)
        tlc_must_pass(m, "StoreI.tla refinement into Store.tla (%s)" % kind)
        out[kind] = m["distinct"]
    orig = run_tlc("MCStoreI", "StoreI_blockstore_digestTRUE.cfg", timeout=600)
    out["original_dedupe_counterexample"] = orig.get("violated")
    return out


def check_C04():
    global _storei
    _storei = storei_models()
    if tier() == "quick":
        store_family("C04", "Store_sem", ["depth=3", "tail=1", "cover=1", "c05=0"],
                     "every operation sequence of length <= 3 through the TLC state graph of Store.tla (32 option sets x 2 root lists x "
                     "{blockstore.ReadWrite, storage.StorageCar}) plus, for every (state, operation) pair of the graph, a shortest sequence "
                     "reaching it; after every step the real object is projected to an abstract state (sections decoded from the file, "
                     "closed-ness probe) and Has/Get/GetSize/AllKeysChan/Roots are compared for 9 query CIDs. distinct = distinct "
                     "(kind, options, roots, op sequence) of length >= 2",
                     "TLC enumerates the complete reachable P-layer graph for MaxSecs=3; the replayer executes all paths <= depth and all transitions")
    else:
        store_family("C04", "Store_sem4", ["depth=4", "tail=2", "cover=1", "c05=0"],
                     "as quick, with MaxSecs=4 and every operation sequence of length <= 4", "complete graph for MaxSecs=4; all paths <= 4; all transitions",
                     workers=16)


def check_C05():
    if tier() == "quick":
        store_family("C05", "Store_lay", ["depth=3", "tail=0", "cover=1", "c05=1", "ops=put,putmany,finalize,finalize_ro,close,discard"],
                     "every put history of length <= 3 (incl. none) over blocks whose section lengths sit on the varint boundaries "
                     "(127/128/16383/16384), empty data and identity CIDs x 4 layouts (data/index padding, both codecs) x StoreIdentityCIDs x "
                     "WriteAsCarV1 x 5 root lists x both stores; after every step the file bytes are compared with the image the "
                     "specification's FileOf gives (pragma, header fields, paddings, payload, index record multiset, canonical order), and every "
                     "finished file is given to Reader.Inspect(true) and lib.VerifyCar",
                     "complete P-layer graph for MaxSecs=2; all paths and all transitions replayed")
    else:
        store_family("C05", "Store_lay3", ["depth=4", "tail=0", "cover=1", "c05=1", "ops=put,putmany,finalize,finalize_ro,close,discard"],
                     "as quick with MaxSecs=3 and histories <= 4", "complete graph MaxSecs=3", workers=16)


RES_EXTRA = [("Store_resx", ["depth=4", "tail=0", "cover=0", "c05=1", "c12=1", "ops=put,discard,finalize,reopen"],
              "resumption over a 16 KiB block (longer than any read-ahead buffer) that is not the last section, and over a block whose data does not hash to its CID "
              "(the stores do not verify what they are given: neither may a resume)")]


def check_C12():
    if tier() == "quick":
        store_family("C12", "Store_res", ["depth=5", "tail=0", "cover=0", "c05=1", "c12=1", "ops=put,discard,finalize,reopen"],
                     "every interleaving of {Put x3 blocks, Discard, Finalize, reopen(same | other root | same-multihash other-codec root | extra root | fewer roots | other data "
                     "padding | data padding beyond the end of the file | other version)} of length <= 5 x 16 option sets (thorough: 24) x 4 root lists (incl. duplicate roots) x both stores; the final file "
                     "of each resumed session is compared byte-for-byte with the uninterrupted real session and with the specification's layout; "
                     "a refused reopen must leave the file bytes unchanged",
                     "complete P-layer graph for MaxSecs=4; all such paths <= 5 replayed", extra_cfgs=RES_EXTRA)
    else:
        store_family("C12", "Store_res6", ["depth=6", "tail=0", "cover=1", "c05=1", "c12=1", "ops=put,discard,finalize,reopen"],
                     "as quick with interleavings of length <= 6", "complete graph MaxSecs=4; all such paths <= 6", workers=16, extra_cfgs=RES_EXTRA)


def replay_generic(pid, path):
    rec = json.load(open(path))
    v = rec["violation"]
    fam = (v.get("replay") or {}).get("family")
    vh = build_harness()
    if fam == "store":
        cfg = {"C04": "Store_sem", "C05": "Store_lay", "C12": "Store_res"}.get(pid, "Store_sem")
        if tier() == "thorough":
            cfg = {"C04": "Store_sem4", "C05": "Store_lay3", "C12": "Store_res6"}.get(pid, cfg)
        emit = run_tlc("MCStore", cfg + "_emit.cfg", timeout=1500)
        tlc_must_pass(emit, "emitter")
        rp = os.path.join(scratch(), "one.json")
        json.dump(v["replay"], open(rp, "w"))
        p = subprocess.run([vh, "store-replay-one", emit["out"], rp], stdout=subprocess.PIPE, stderr=subprocess.STDOUT, text=True)
        print(p.stdout)
        if p.returncode == 1:
            print("VIOLATION property=%s replay=%s" % (pid, path))
        sys.exit(p.returncode)
    rp = os.path.join(scratch(), "one.json")
    json.dump(v["replay"], open(rp, "w"))
    p = subprocess.run([vh, "replay-one", rp], stdout=subprocess.PIPE, stderr=subprocess.STDOUT, text=True)
    print(p.stdout)
    if p.returncode == 1:
        print("VIOLATION property=%s replay=%s" % (pid, path))
    sys.exit(p.returncode)


# ---------------------------------------------------------------------------------------------
# generic: TLC model config + TLC emitter config + harness replay sub-command

def emit_family(pid, module, cfg, subcmd, rule, note, level="model_checking", extra_args=None, workers=8,
                assumptions=None, model_cfg=None, timeout=1800):
    vh = build_harness()
    check_alphabet(vh)
    model = run_tlc(module, (model_cfg or cfg) + ".cfg", timeout=timeout, workers=workers)
    tlc_must_pass(model, "%s invariants (%s)" % (module, cfg))
    emit = run_tlc(module, cfg + "_emit.cfg", timeout=timeout, workers=workers)
    tlc_must_pass(emit, "%s emitter (%s)" % (module, cfg))
    rc, rep = harness_run(vh, [subcmd, emit["out"], "@REPORT", "seed=%d" % seed()] + (extra_args or []))
    cov = merge_cov(model, emit, rep, {"rule": rule, "exhaustive": True, "explanation": note})
    if not cov["samples"]:
        cov["samples"] = [{"note": "no case sampled"}]
    finish(pid, level, cov, rep["violations"] or [], assumptions=assumptions or [],
           inconclusive=rep.get("inconclusive"), drift=rep.get("model_drift"))


def check_C14():
    t = "Quick" if tier() == "quick" else "Thor"
    emit_family("C14", "MCReader", "Reader_" + t, "reader-replay",
                "every archive with <= 3 sections over the block alphabet (incl. CIDv0, identity, empty data, varint-boundary lengths) x 3 root lists x "
                "{CARv1, CARv2, CARv2 padded+sorted index, CARv2 index-less with 1413 bytes of data padding} x every Next/SkipNext choice string, "
                "each replayed on bytes.Reader, a plain counting io.Reader and *os.File; distinct = behaviours that mix both calls",
                "TLC enumerates the complete behaviour tree of Reader.tla and checks OffsetExact/NoOverread/SameCidSequence on it; every maximal behaviour is replayed",
                assumptions=["archives are built by the reference encoder; the spec's offsets are compared with BlockMetadata and with the bytes at SourceOffset"])


# ---------------------------------------------------------------------------------------------
# Archive families (reader side): C01 (read side), C02, C03, C07, C13

ARCH_RULE = ("every abstract archive with <= %d sections over %s x 4 root lists (none, one, CIDv0+v1, duplicate) x 7 containers "
             "(CARv1, CARv2 +/- index of either codec, data/index padding, fully-indexed, null padding) is enumerated by TLC (ArchiveCases.tla), built by the "
             "reference encoder and given to the real code; ")


def archive_family(pid, cfgs, mode, emit, rule, note, level="model_checking", assumptions=None, more=None):
    vh = build_harness()
    check_alphabet(vh)
    tot_model = {"distinct": 0, "states": 0, "cmd": ""}
    reps = []
    emit_states = 0
    for cfg in cfgs:
        model = run_tlc("MCArchive", cfg + ".cfg", timeout=1800)
        tlc_must_pass(model, "ArchiveCases consistency invariants (%s)" % cfg)
        tot_model["distinct"] += model["distinct"]
        tot_model["states"] += model["states"]
        tot_model["cmd"] = model["cmd"]
        em = run_tlc("MCArchive", "%s_emit%s.cfg" % (cfg, emit), timeout=1800)
        tlc_must_pass(em, "ArchiveCases emitter (%s)" % cfg)
        emit_states += em["distinct"]
        rc, rep = harness_run(vh, ["archive-replay", em["out"], "@REPORT", "mode=" + mode])
        reps.append(rep)
        os.remove(em["out"])
    for emit_cfg, mode2 in (more or []):
        em = run_tlc("MCArchive", emit_cfg, timeout=1800)
        tlc_must_pass(em, "ArchiveCases emitter (%s)" % emit_cfg)
        rc, rep = harness_run(vh, ["archive-replay", em["out"], "@REPORT", "mode=" + mode2])
        reps.append(rep)
        os.remove(em["out"])
    rep = reps[0]
    for r in reps[1:]:
        rep["evaluations"] += r["evaluations"]
        rep["distinct_nontrivial"] += r["distinct_nontrivial"]
        rep["violations"] = (rep["violations"] or []) + (r["violations"] or [])
        rep["samples"] = (rep["samples"] or []) + (r["samples"] or [])
        for k, v in (r["counters"] or {}).items():
            rep["counters"][k] = rep["counters"].get(k, 0) + v
        rep["inconclusive"] = (rep.get("inconclusive") or []) + (r.get("inconclusive") or [])
    cov = merge_cov(tot_model, {"distinct": emit_states}, rep, {"rule": rule, "exhaustive": True, "explanation": note})
    cov["samples"] = (cov["samples"] or [{"note": "none"}])[:10]
    finish(pid, level, cov, rep["violations"] or [], assumptions=assumptions or [], inconclusive=rep.get("inconclusive") or None)


def arch_cfgs(big_in_quick=False):
    # Archive_Big: 16 KiB blocks (skips longer than any scratch buffer, multi-byte length prefixes)
    quick = ["Archive_A", "Archive_B", "Archive_C"] + (["Archive_Big"] if big_in_quick else [])
    return quick if tier() == "quick" else ["Archive_A", "Archive_B", "Archive_C", "Archive_Big", "Archive_A4"]


def check_C03():
    archive_family("C03", arch_cfgs(big_in_quick=True), "idx", "Idx",
                   ARCH_RULE % (3, "two 6-8 block alphabets (equal multihash/other codec, equal digest under 3 hash functions, CIDv0, identity, 20/32/64-byte digests, 204-byte CID, varint boundaries)") +
                   "for each: GenerateIndex / LoadIndex(insertion) / GenerateIndexFromFile / ReadOrGenerateIndex x {bytes.Reader, *os.File, plain io.Reader} x both codecs + insertion index x "
                   "StoreIdentityCIDs x MaxIndexCidSize {default, 64}; GetAll/GetFirst for 13 probe CIDs are compared with the specification's IndexOffsets, every offset is decoded from the "
                   "payload bytes, ForEach is compared with the record multiset",
                   "complete enumeration of the bounded archive space; all entry points and source kinds per archive")


def check_C07():
    archive_family("C07", arch_cfgs(), "ro", "Ro",
                   ARCH_RULE % (3, "the same alphabets") +
                   "for each: blockstore.NewReadOnly (ReaderAt-only source, also with a supplied index of either codec), blockstore.OpenReadOnly (mmap) and storage.OpenReadable x "
                   "UseWholeCIDs x StoreIdentityCIDs (x ZeroLengthSectionAsEOF for null-padded archives); Has/Get/GetSize/GetStream for 13 probe CIDs, the AllKeysChan sequence and Roots "
                   "are compared with the specification's scan-derived answers (RoHas/RoGet of ArchiveOps.tla)",
                   "complete enumeration of the bounded archive space; all front-ends and option sets per archive")


def check_C13():
    archive_family("C13", arch_cfgs() + ["Archive_U"], "stats", "Stats",
                   ARCH_RULE % (3, "the same alphabets") +
                   "Reader.Inspect(true|false) x ZeroLengthSectionAsEOF is compared field by field with the specification's Stats operator, and its success with that of a hash-verifying "
                   "BlockReader scan; corrupted/truncated inputs are compared in the same way from the C02 mutation set",
                   "complete enumeration of the bounded valid-archive space; the iff-with-scan clause is additionally evaluated on the C02 archive set under every truncation, every data / digest "
                   "byte flip, every flip of a byte in front of the first section (pragma, CARv2 header, inner header) and an over-announced last section",
                   more=[("Archive_T_emitScan.cfg" if tier() == "quick" else "Archive_T3_emitScan.cfg", "iff"), ("Archive_TBig_emitScan.cfg", "iff")])


def check_C02():
    import re, collections
    vh = build_harness()
    check_alphabet(vh)
    cfg = "Archive_T" if tier() == "quick" else "Archive_T3"
    model = run_tlc("MCArchive", cfg + ".cfg", timeout=1800)
    tlc_must_pass(model, "ArchiveCases invariants (%s)" % cfg)
    em = run_tlc("MCArchive", cfg + "_emitScan.cfg", timeout=1800)
    tlc_must_pass(em, "ArchiveCases emitter")
    # plus archives holding a section larger than 64 KiB (cut offsets sampled there)
    emb = run_tlc("MCArchive", "Archive_TBig_emitScan.cfg", timeout=1800)
    tlc_must_pass(emb, "ArchiveCases emitter (big sections)")
    with open(em["out"], "a") as f:
        f.write(open(emb["out"]).read())
    obs, arch = os.path.join(scratch(), "obs.ndjson"), os.path.join(scratch(), "arch.ndjson")
    rc, rep = harness_run(vh, ["archive-replay", em["out"], "@REPORT", "mode=trunc", "obs=" + obs, "arch=" + arch], timeout=3000)
    nobs = sum(1 for _ in open(obs))
    # the observations are independent of each other: validated in parallel slices (one TLC each)
    nsl = 1 if nobs < 1500000 else 8
    per = (nobs + nsl - 1) // nsl
    slices = []
    with open(obs) as f:
        for k in range(nsl):
            sp = os.path.join(scratch(), "obs-%d.ndjson" % k)
            n = 0
            with open(sp, "w") as g:
                for line in f:
                    g.write(line)
                    n += 1
                    if n == per:
                        break
            if n:
                slices.append((k, sp, n))
    from concurrent.futures import ThreadPoolExecutor
    def validate(sl):
        k, sp, n = sl
        return run_tlc("ReaderObs", "ReaderObs.cfg", workers=1, timeout=3000, env={"VERIF_OBS": sp, "VERIF_ARCH": arch}, tag="-s%d" % k)
    with ThreadPoolExecutor(len(slices)) as ex:
        vals = list(ex.map(validate, slices))
    val = vals[0]
    rejects = []
    for (k, sp, n), v in zip(slices, vals):
        txt = open(v["out"], errors="replace").read()
        m = re.search(r'"VALIDATED", (\d+)', txt)
        if not m or int(m.group(1)) != n:
            raise Inconclusive("ReaderObs validation did not consume all %d observations of slice %d\n%s" % (n, k, v["tail"]))
        rejects += [k * per + int(x) for x in re.findall(r'<<"REJECT", (\d+)>>', txt)]
        os.remove(sp)
    viols = list(rep["violations"] or [])
    if rejects:
        want = set(rejects)
        archs = {}
        for l in open(arch):
            r = json.loads(l)
            archs[r["aid"]] = r["a"]
        for i, l in enumerate(open(obs), 1):
            if i in want:
                o = json.loads(l)
                viols.append({"class": "untrusted-read/%s/%s/%s" % (o["kind"], o["reader"], o["end"] + ("-bad-block" if o["bad"] else "")),
                              "detail": "reader %s on %s of archive %s: returned %d blocks, bad=%s, ended %s -- rejected by ReaderObs!Allowed" % (
                                  o["reader"], ("prefix of %d bytes" % o["k"]) if o["kind"] == "trunc" else ("byte %d flipped (section %d)" % (o["k"], o["sec"])),
                                  json.dumps(archs[o["aid"]]), o["n"], o["bad"], o["end"]),
                              "replay": {"family": "trunc", "obs": o, "a": archs[o["aid"]]}})
    rc2, hf = harness_run(vh, ["hashfuzz", "@REPORT", "seed=%d" % seed(), "n=%d" % (60000 if tier() == "quick" else 3000000)])
    viols += hf["violations"] or []
    cov = {"evaluations": rep["evaluations"] + hf["evaluations"], "distinct_nontrivial": rep["distinct_nontrivial"] + hf["distinct_nontrivial"],
           "rule": "for every archive of the TLC-enumerated set (<= %d sections over {raw, CIDv0, identity, truncated digest, empty identity, empty data} x 3 root lists x "
                   "{CARv1, CARv2+index, CARv2 padded index-less}): EVERY proper prefix inside headers/sections and a 0xff / low-bit / high-bit flip of EVERY data and digest byte, "
                   "through BlockReader (Next, SkipNext, alternating; bytes.Reader and plain io.Reader), Reader.Inspect(true), root-module and internal CARv1 readers and loaders; one observation "
                   "record each, validated by TLC against ReaderObs!Allowed (region of the cut computed from the specification's layout). Plus random multi-edit mutations and raw random strings "
                   "whose returned blocks are re-hashed. distinct = distinct (archive, mutation, reader)" % (2 if tier() == "quick" else 3),
           "samples": (rep["samples"] or [])[:6] + [{"observation": json.loads(open(obs).readline())}],
           "observations_validated_by_tlc": nobs, "tlc_rejects": len(rejects), "hashfuzz_inputs": hf["evaluations"],
           "states": model["distinct"], "transitions": model["states"], "tlc_validate_cmd": val["cmd"], "counters": rep["counters"]}
    finish("C02", "fault_enumeration", cov, viols, assumptions=["SkipNext does not verify hashes by design: it is held to the truncation half only"],
           inconclusive=(rep.get("inconclusive") or None))


def check_C01():
    # write side under the documented de-duplication: the Store.tla graph with byte comparison of every file
    vh = build_harness()
    emit = run_tlc("MCStore", "Store_sem_emit.cfg", timeout=1500)
    tlc_must_pass(emit, "Store.tla emitter")
    rc, srep = harness_run(vh, ["store-replay", emit["out"], "@REPORT", "depth=2", "tail=0", "cover=1", "c05=1", "ops=put,putmany,finalize"])
    os.remove(emit["out"])
    if srep["violations"]:
        for v in srep["violations"]:
            v["class"] = "roundtrip/dedupe/" + v["class"]
        finish("C01", "model_checking", {"evaluations": srep["evaluations"], "distinct_nontrivial": srep["distinct_nontrivial"],
                                         "samples": srep["samples"] or [{}], "states": emit["distinct"], "transitions": emit["states"],
                                         "traces_validated_against_impl": srep["evaluations"]}, srep["violations"])
    global _c01_store
    _c01_store = srep
    archive_family("C01", arch_cfgs(big_in_quick=True), "scan", "Scan",
                   ARCH_RULE % (3, "the same alphabets") +
                   "read side: v2 BlockReader (seekable and plain source), v2 Reader (DataReader/IndexReader/Roots), root-module CarReader and LoadCar, internal CARv1 reader and loader must return the "
                   "specification's roots and (CID, bytes) sequence; write side (store-replay with payload comparison, see counters): every writer's payload equals the reference encoding",
                   "complete enumeration of the bounded archive space x all sequential readers")


def check_C11():
    n = 3 if tier() == "quick" else 4
    vh = build_harness()
    check_alphabet(vh)
    model = run_tlc("MCIndex", "Index_%d.cfg" % n, timeout=1800)
    tlc_must_pass(model, "Index.tla order-independence invariants")
    em = run_tlc("MCIndex", "Index_%d_emit.cfg" % n, timeout=1800)
    tlc_must_pass(em, "Index.tla emitter")
    rc, rep = harness_run(vh, ["index-replay", em["out"], "@REPORT"])
    # flatten vs regenerate on every finished file of the layout graph
    lay = "Store_lay" if tier() == "quick" else "Store_lay3"
    emit = run_tlc("MCStore", lay + "_emit.cfg", timeout=1500)
    tlc_must_pass(emit, "Store.tla emitter")
    rc2, srep = harness_run(vh, ["store-replay", emit["out"], "@REPORT", "depth=3", "tail=0", "cover=1", "c05=1", "ops=put,putmany,finalize", "kinds=blockstore,storage"])
    sem = run_tlc("MCStore", "Store_sem_emit.cfg", timeout=1500)
    tlc_must_pass(sem, "Store.tla emitter")
    rc3, srep2 = harness_run(vh, ["store-replay", sem["out"], "@REPORT", "depth=2", "tail=0", "cover=1", "c05=1", "ops=put,putmany,finalize", "kinds=blockstore"])
    viols = (rep["violations"] or []) + [v for v in (srep["violations"] or []) + (srep2["violations"] or []) if "flatten-vs-regenerate" in v["class"]]
    cov = merge_cov(model, em, rep, {
        "rule": "every load order (sequence, so all permutations and repetitions) of <= %d records over a 10-record alphabet (3 hash codes, digest widths 0/20/32/64, equal digests under "
                "different codes and offsets, offsets 0, 1, 2^32, 2^63-1, 2^63) x both codecs: 8 serializations compared, reported length = bytes written = SerialLen, bucket and entry order = "
                "Canon, ReadFrom round trip, GetAll/GetFirst for 10 query keys on the loaded and the read-back index, ForEach multiset; flatten-vs-regenerate on %d finished files of the Store graphs"
                % (n, srep["counters"].get("finalized_files_checked", 0) + srep2["counters"].get("finalized_files_checked", 0)),
        "exhaustive": True, "explanation": "TLC checks OrderIndependent / LookupsAreMultisetFunctions over all permutations of every reachable load sequence"})
    finish("C11", "model_checking", cov, viols, inconclusive=rep.get("inconclusive") or None)


def check_C10():
    n = 2 if tier() == "quick" else 3
    emit_family("C10", "MCTransform", "Transform_%d" % n, "transform-replay",
                "every behaviour of %d transform steps {WrapV1/WrapV1File (both codecs), ExtractV1File to an absent / larger pre-existing / the same path, ReplaceRootsInFile with 6 replacement "
                "root lists of equal and different encoded size} from every file of <= 2 sections over 6 blocks x 4 root lists x 5 containers (CARv1, CARv2 +/- index, paddings 1/7/8/1407/1413, "
                "fully indexed); after every step ALL bytes of the file are compared with the reference encoding of the specification's abstract file; refused operations must leave the bytes "
                "unchanged; sources of wrap/extract must stay untouched" % n,
                "TLC enumerates the complete behaviour tree of Transform.tla and checks SecsNeverChange / RootsOnlyEqualLength / ExtractWrapIdentity / ErrLeavesFile",
                assumptions=["wrapping a file that is not a CARv1 is outside the property"])


def check_C20():
    n = 5 if tier() == "quick" else 6
    emit_family("C20", "MCDeferred", "Deferred_%d" % n, "deferred-replay",
                "every history of %d operations over {OnPut(once), OnPut(always) (<= 3 registrations), Has x2, Put x3 (incl. a same-multihash and an identity block), Close} x 5 configurations "
                "(path CARv2, path CARv1, stream, with/without StoreIdentityCIDs / AllowDuplicatePuts); after every step: result, the exact callback log (ids in registration order, sizes), "
                "and the bytes on the stream / existence and bytes of the file are compared with the specification; at the end the output is compared with a directly constructed "
                "storage.NewWritable given the same puts" % n,
                "TLC enumerates the complete behaviour tree of Deferred.tla and checks Lazy / OnceFiresOnce / ClosedIsFinal / AppendOnly")


# ---------------------------------------------------------------------------------------------
# C06 / C16: observation records validated by TLC

def validate_obs(module, obs_path, env_extra=None):
    import re
    env = {"VERIF_OBS": obs_path}
    env.update(env_extra or {})
    val = run_tlc(module, module + ".cfg", workers=1, timeout=3000, env=env)
    nobs = sum(1 for _ in open(obs_path))
    txt = open(val["out"], errors="replace").read()
    m = re.search(r'"VALIDATED", (\d+)', txt)
    if not m or int(m.group(1)) != nobs:
        raise Inconclusive("%s did not consume all %d observations\n%s" % (module, nobs, val["tail"]))
    rejects = set(int(x) for x in re.findall(r'<<"REJECT", (\d+)>>', txt))
    recs = []
    if rejects:
        for i, l in enumerate(open(obs_path), 1):
            if i in rejects:
                recs.append(json.loads(l))
    return val, nobs, recs


def upstream_traces(run_regex):
    """Runs the repository's own blockstore/storage tests built with -tags verif with the event recorder on,
    and returns (lock events file, write log file, counts)."""
    vh = build_harness()
    tr = os.path.join(scratch(), "uptrace-%d.ndjson" % int(time.time() * 1000))
    env = dict(vlib.GOENV, VERIF_TRACE_FILE=tr)
    cmd = ["go", "test", "-tags", "verif", "-vet=off", "-count=1"]
    if run_regex:
        cmd += ["-run", run_regex]
    cmd += ["./blockstore", "./storage/..."]
    # the repository's TestBlockstore lists its keys under a one-second deadline: on a busy machine (recorder on,
    # other checks running) it can miss it, so a failing run is repeated before the traces are given up
    for attempt in range(3):
        if os.path.exists(tr):
            os.remove(tr)
        p = subprocess.run(cmd, cwd=os.path.join(vlib.REPO, "v2"), env=env, stdout=subprocess.PIPE, stderr=subprocess.STDOUT, text=True, timeout=3000)
        if p.returncode == 0 and os.path.exists(tr):
            break
    if p.returncode != 0 or not os.path.exists(tr):
        raise Inconclusive("the repository's tests (tag verif) did not pass or recorded nothing:\n" + p.stdout[-1500:])
    locks, proto = tr + ".locks", tr + ".proto"
    q = subprocess.run([vh, "uptrace-prep", tr, locks, proto], stdout=subprocess.PIPE, text=True)
    os.remove(tr)
    try:
        counts = json.loads(q.stdout.strip().splitlines()[-1])
    except Exception:
        raise Inconclusive("uptrace-prep failed: " + q.stdout[-500:])
    return locks, proto, counts


def check_C06():
    vh = build_harness()
    check_alphabet(vh)
    obs, sess, proto = [os.path.join(scratch(), n) for n in ("cr_obs.ndjson", "cr_sess.ndjson", "cr_proto.ndjson")]
    rc, rep = harness_run(vh, ["crash-enum", "@REPORT", obs, sess, proto, "tier=" + tier()], timeout=3000)
    val, nobs, rejected = validate_obs("CrashObs", obs)
    # I-layer: the recorded write logs against the write protocol
    import re
    pv = run_tlc("WriteProto", "WriteProto.cfg", workers=1, timeout=1200, env={"VERIF_PROTO": proto})
    ptxt = open(pv["out"], errors="replace").read()
    drift = []
    if '"ACCEPTED"' not in ptxt or not pv["ok"]:
        m = re.search(r'<<"STUCK", (\d+)>>', ptxt)
        line = ""
        if m:
            for i, l in enumerate(open(proto), 1):
                if i == int(m.group(1)):
                    line = l.strip()
        drift.append("write log rejected by WriteProto.tla at event %s: %s %s" % (m.group(1) if m else "?", line, pv.get("violated") or ""))
    # ... and the write logs of the repository's own resumption tests (code -> spec on executions upstream thought worth testing)
    ulocks, uproto, ucounts = upstream_traces("Resumption|ReadWrite" if tier() == "quick" else None)
    if os.path.getsize(uproto) > 0:
        upv = run_tlc("WriteProto", "WriteProto.cfg", workers=1, timeout=1800, env={"VERIF_PROTO": uproto})
        utxt = open(upv["out"], errors="replace").read()
        if '"ACCEPTED"' not in utxt or not upv["ok"]:
            m = re.search(r'<<"STUCK", (\d+)>>', utxt)
            drift.append("write log of the repository's own tests rejected by WriteProto.tla at event %s" % (m.group(1) if m else "?"))
    sessions = {}
    for l in open(sess):
        s = json.loads(l)
        sessions[s["sid"]] = s
    viols = []
    for o in rejected:
        s = sessions.get(o["sid"], {})
        cls = "crash/%s/%s/%s/%s" % (o["call"], o["wkind"], "torn" if o["torn"] else "boundary",
                                     "refused-but-damaged" if o["reopen"] == "err" else "resumed-wrongly")
        # what went wrong, and in which history: part of the class, so that a recorded finding covers exactly that
        # failure of that history and nothing else
        if o["reopen"] != "err":
            why = "phantom-block" if o.get("unknown", 0) > 0 else ("lost-block" if not o.get("getok", True) else
                                                                   ("continuation-malformed" if not o.get("contok", True) else "other"))
            cls += "/%s/%s/%s/%s" % (why, s.get("kind", "?"), (s.get("shape") or {}).get("name", "?"),
                                     "+".join(k for k in ("zero", "ident", "v1", "dup", "whole") if (s.get("o") or {}).get(k)) or "default-options")
        viols.append({"class": cls,
                      "detail": "session %s %s opts %s, cut at op %d byte %d (%s/%s): reopen %s; acked %s keys %s unknown %d getok %s contok %s %s" % (
                          s.get("kind"), json.dumps(s.get("shape")), json.dumps(s.get("o")), o["i"], o["k"], o["call"], o["wkind"], o["reopen"],
                          o["acked"], o["keys"], o["unknown"], o["getok"], o["contok"], o["msg"][:300]),
                      "replay": {"family": "crash", "session": s, "obs": o}})
    cov = {"evaluations": rep["evaluations"], "distinct_nontrivial": rep["distinct_nontrivial"], "states": nobs, "transitions": nobs,
           "traces_validated_against_impl": nobs,
           "rule": "sessions = {blockstore.ReadWrite (write log from the verif hook on the real file), storage.StorageCar (recording ReaderAtWriterAt)} x %d option sets x %d shapes "
                   "(fresh, finalized-then-resumed, discarded-then-resumed, resumed-without-puts, ...); for the last session of each shape EVERY operation boundary and EVERY byte inside "
                   "every write (long data writes: both ends + stride 97) is materialised as a crash image, reopened with the real resumption code, observed (AllKeysChan/Has/Get), continued with two "
                   "puts + Finalize and decoded by the reference decoder + Inspect(true); each observation is validated by TLC against CrashObs!CrashSafe; the write logs are validated against the "
                   "I-layer WriteProto.tla" % (rep["counters"].get("sessions", 0) // 2 // max(1, (6 if tier() == "quick" else 10)), 6 if tier() == "quick" else 10),
           "samples": rep["samples"] or [{}], "counters": rep["counters"], "write_log_events_validated": sum(1 for _ in open(proto)),
           "upstream_test_write_events_validated": sum(1 for _ in open(uproto)), "upstream_test_write_sessions": ucounts.get("write_sessions"),
           "tlc_validate_cmd": val["cmd"], "exhaustive": True}
    finish("C06", "fault_enumeration", cov, viols, inconclusive=rep.get("inconclusive") or None, drift=drift or None,
           assumptions=["a crash preserves a prefix of the issued writes, the last one possibly torn (no reordering by the file system)",
                        "refusing to resume is acceptable as long as acknowledged sections stay on disk"])


def check_C16():
    vh = build_harness()
    obs = os.path.join(scratch(), "ft_obs.ndjson")
    rc, rep = harness_run(vh, ["fault-enum", "@REPORT", obs, "tier=" + tier()], timeout=3000)
    # blockstore.ReadWrite on a real file: kernel short writes through RLIMIT_FSIZE, one child process per fault point
    rcb, repb = harness_run(vh, ["fault-bs-enum", "@REPORT", obs], timeout=3000)
    rep["evaluations"] += repb["evaluations"]
    rep["distinct_nontrivial"] += repb["distinct_nontrivial"]
    rep["samples"] = (rep["samples"] or []) + (repb["samples"] or [])
    rep["counters"]["blockstore"] = repb["counters"]
    rep["inconclusive"] = (rep.get("inconclusive") or []) + (repb.get("inconclusive") or [])
    val, nobs, rejected = validate_obs("FaultObs", obs)
    viols = []
    for o in rejected:
        target = "stream" if o["stream"] else ("v1-file" if o["v1"] else "v2")
        if o["sid"] in (108, 109):      # the two deferred-writer sessions of harness/fault_bs.go
            target = "deferred-" + ("v1" if o["v1"] else "v2")
        elif o["sid"] >= 100:      # blockstore.ReadWrite on a real file (which, unlike an io.WriterAt, can be truncated)
            target = "blockstore-" + ("v1" if o["v1"] else "v2")
        if o.get("reopened"):
            sym = "usable-after-failed-close"
        elif not o["errret"]:
            sym = "error-swallowed"
        elif o["visible"]:
            sym = "failed-block-visible"
        elif not o["well"]:
            sym = "archive-not-wellformed"
        else:
            sym = "archive-holds-unacknowledged-block"
        call = o["call"] + ("+2nd-fault" if o.get("faults", 1) >= 2 else "")
        cls = "fault/%s/%s/%s/%s" % (call, target, o["cont"], sym)
        viols.append({"class": cls, "detail": "session %d: write #%d fails after persisting %d bytes during %s, continuation %s: %s %s" % (
            o["sid"], o["w"], o["k"], o["call"], o["cont"], sym, o["msg"][:300]), "replay": {"family": "fault", "obs": o}})
    cov = {"evaluations": rep["evaluations"], "distinct_nontrivial": rep["distinct_nontrivial"], "states": nobs, "transitions": nobs,
           "traces_validated_against_impl": nobs,
           "rule": "blockstore.ReadWrite on a real file with a transient kernel short write (RLIMIT_FSIZE, SIGXFSZ ignored, child process per point) at every file offset 0..699 of 4 sessions x 3 continuations; storage.NewReadableWritable over a fault-injecting ReaderAtWriterAt (CARv2, CARv2 padded, CARv1) and storage.NewWritable over a failing plain stream: a transient fault at EVERY write "
                   "of the session (constructor, every section write, every index/header write of Finalize) x EVERY number of persisted bytes 0..len-1 x continuation {retry, next put, finalize at once}; "
                   "each observation validated by TLC against FaultObs!FaultSafe", "samples": rep["samples"] or [{}], "counters": rep["counters"], "tlc_validate_cmd": val["cmd"],
           "exhaustive": True}
    finish("C16", "fault_enumeration", cov, viols, inconclusive=rep.get("inconclusive") or None,
           assumptions=["storage faults are injected at the io.WriterAt / io.Writer boundary", "blockstore faults come from RLIMIT_FSIZE: only writes that grow the file can fail, so the CARv2 header writes of Finalize are not faulted for blockstore.ReadWrite"])


def check_C08():
    import re
    vh = build_harness()
    model = run_tlc("MCConc", "Conc_fixed.cfg", timeout=900)
    tlc_must_pass(model, "Conc.tla (lock discipline: NoConflict, MutexOK, Linearizable, DedupeOnce, Termination)")
    orig = run_tlc("MCConc", "Conc_original.cfg", timeout=900)   # the pre-fix AllKeysChan: documents the design-level counterexample
    vr = build_harness(race=True, name="vhrace")
    viols, inconc = [], []
    hist1 = os.path.join(scratch(), "cc_hist.ndjson")
    rep_path = os.path.join(scratch(), "cc_rep.json")
    rounds = 25 if tier() == "quick" else 600
    env = dict(vlib.GOENV, GORACE="halt_on_error=1 exitcode=66")
    try:
        p = subprocess.run([vr, "conc-stress", rep_path, hist1, "seed=%d" % seed(), "rounds=%d" % rounds], env=env, timeout=3000,
                           stdout=subprocess.PIPE, stderr=subprocess.STDOUT, text=True)
    except subprocess.TimeoutExpired:
        raise Inconclusive("conc-stress timed out")
    if p.returncode == 66:
        m = re.search(r"WARNING: DATA RACE.*?(?=\n==================)", p.stdout, re.S)
        txt = (m.group(0) if m else p.stdout)[:2500]
        fn = re.findall(r"\n  ([\w./()*-]+)\(\)\n", txt)
        viols.append({"class": "conc/data-race/" + (fn[0].split("/")[-1] if fn else "unknown"), "detail": txt, "replay": {"family": "conc", "seed": seed(), "rounds": rounds}})
        srep = {"evaluations": 0, "distinct_nontrivial": 0, "counters": {}, "samples": [], "violations": []}
    elif p.returncode in (0, 1) and os.path.exists(rep_path):
        srep = vlib.read_report(rep_path)
        viols += srep["violations"] or []
    else:
        raise Inconclusive("conc-stress failed rc=%d\n%s" % (p.returncode, p.stdout[-2000:]))
    hist2 = os.path.join(scratch(), "cx_hist.ndjson")
    rc, xrep = harness_run(vh, ["conc-explore", "@REPORT", hist2, "max=%d" % (60 if tier() == "quick" else 500)], timeout=3000)
    viols += xrep["violations"] or []
    nev = 0
    for hp in (hist1, hist2):
        if not os.path.exists(hp) or os.path.getsize(hp) == 0:
            continue
        val = run_tlc("ConcTrace", "ConcTrace.cfg", workers=1, timeout=1800, env={"VERIF_HIST": hp})
        txt = open(val["out"], errors="replace").read()
        n = sum(1 for _ in open(hp))
        m = re.search(r'"VALIDATED", (\d+)', txt)
        stuck = re.search(r'<<"STUCK", (\d+)>>', txt)
        if stuck or not m or int(m.group(1)) != n:
            inconc.append("ConcTrace did not consume the history %s (%s)" % (os.path.basename(hp), stuck.group(0) if stuck else val["tail"][-300:]))
            continue
        nev += n
        rej = [int(x) for x in re.findall(r'<<"REJECT", (\d+)>>', txt)]
        if rej:
            lines = open(hp).read().splitlines()
            for r in rej[:5]:
                e = json.loads(lines[r - 1])
                ctx = [json.loads(x) for x in lines[max(0, r - 12):r]]
                viols.append({"class": "conc/not-linearizable/%s" % e["op"],
                              "detail": "history event %d: %s(%s) returned %s %s, which the sequential model at its linearization point does not give" % (r, e["op"], e["key"], e["res"], e["set"]),
                              "replay": {"family": "conc-history", "event": e, "preceding": ctx}})
    # lock discipline (I-layer) on the traces of the repository's own concurrent tests
    ulocks, uproto, ucounts = upstream_traces("Concurrent" if tier() == "quick" else None)
    lockdrift = []
    lv = run_tlc("LockTrace", "LockTrace.cfg", workers=1, timeout=2400, env={"VERIF_LOCKS": ulocks})
    ltxt = open(lv["out"], errors="replace").read()
    nlock = sum(1 for _ in open(ulocks))
    lm = re.search(r'"VALIDATED", (\d+)', ltxt)
    if not lm or int(lm.group(1)) != nlock:
        inconc.append("LockTrace did not consume the lock trace: " + lv["tail"][-300:])
    lrej = re.findall(r'<<"REJECT", (\d+)>>', ltxt)
    if lrej:
        lines = open(ulocks).read().splitlines()
        ev = json.loads(lines[int(lrej[0]) - 1])
        viols.append({"class": "conc/lock-discipline/overlapping-critical-sections",
                      "detail": "in the repository's own tests (tag verif) %d lock events contradict mutual exclusion, first: event %s %s -- a critical section the lock discipline makes exclusive overlapped another one" % (len(lrej), lrej[0], ev),
                      "replay": {"family": "lock-trace", "event": ev, "index": int(lrej[0])}})
    cov = {"states": model["distinct"], "transitions": model["states"], "traces_validated_against_impl": srep["evaluations"] + xrep["evaluations"],
           "upstream_test_lock_events_validated_by_tlc": nlock,
           "evaluations": srep["evaluations"] + xrep["evaluations"], "distinct_nontrivial": srep["distinct_nontrivial"] + xrep["distinct_nontrivial"],
           "history_events_validated_by_tlc": nev,
           "rule": "(1) race-detector build: %d free-running rounds x {blockstore.ReadWrite, storage.StorageCar, DeferredCarWriter}, 2..16 goroutines, random mixes of Put/Has/Get/AllKeysChan/Finalize on 2..7 shared "
                   "keys, watchdog for deadlock, final file decoded (every acknowledged block exactly once); (2) gate-driven depth-first exploration of every order in which the goroutines of 6 small "
                   "programs pass the lock gates (pre/locked/unlocking) x 3 stores; (3) all recorded histories (invocation, linearization point taken under the lock by the hook, response) validated by "
                   "TLC against ConcTrace.tla; (4) Conc.tla model-checked (original AllKeysChan variant gives the NoConflict counterexample: %s)" % (rounds, orig.get("violated")),
           "samples": (srep["samples"] or [])[:3] + (xrep["samples"] or [])[:3] or [{}], "counters": {"stress": srep["counters"], "explore": xrep["counters"]}}
    finish("C08", "model_checking", cov, viols, inconclusive=inconc or None,
           assumptions=["the Go race detector decides 'no data race' on the executions it sees", "gates add happens-before edges, so race detection runs ungated"])


def check_C17():
    vh = build_harness()
    car = vlib.build_car()
    model = run_tlc("MCExtractFS", "ExtractFS_guardTRUE.cfg", timeout=1800)
    tlc_must_pass(model, "ExtractFS.tla invariant Contained (extractor with the final-component guard)")
    noguard = run_tlc("MCExtractFS", "ExtractFS_guardFALSE.cfg", timeout=1800)   # design-level counterexample without the guard (documented)
    em = run_tlc("MCExtractFS", "ExtractFS_emit.cfg", timeout=2400)
    tlc_must_pass(em, "ExtractFS.tla emitter")
    rc, rep = harness_run(vh, ["extract-replay", em["out"], "@REPORT", car], timeout=3400)

    def absorb(r2, label):
        rep["evaluations"] += r2["evaluations"]
        rep["distinct_nontrivial"] += r2["distinct_nontrivial"]
        rep["violations"] = (rep["violations"] or []) + (r2["violations"] or [])
        rep["inconclusive"] = (rep.get("inconclusive") or []) + (r2.get("inconclusive") or [])
        rep["model_drift"] = (rep.get("model_drift") or []) + (r2.get("model_drift") or [])
        rep["counters"][label + "_archives"] = r2["counters"].get("archives", 0)

    three = ""
    if tier() == "thorough":
        # three top-level entries over a reduced alphabet (4 file names, 2 link names x 5 targets): measured 350 k archives
        m3 = run_tlc("MCExtractFS", "ExtractFS_guardTRUE3.cfg", timeout=3000, workers=16)
        tlc_must_pass(m3, "ExtractFS.tla invariant Contained, three top-level entries")
        em3 = run_tlc("MCExtractFS", "ExtractFS_emit3.cfg", timeout=3000, workers=16)
        tlc_must_pass(em3, "ExtractFS.tla emitter (three entries)")
        rc3, rep3 = harness_run(vh, ["extract-replay", em3["out"], "@REPORT", car], timeout=5000)
        os.remove(em3["out"])
        absorb(rep3, "three_entry")
        rep["counters"]["three_entry_states"] = m3["distinct"]
        three = "; thorough: also every archive of 3 top-level entries over {4 file names, 2 link names x 5 targets, directories with <= 1 child} (%d archives)" % rep3["counters"].get("archives", 0)
    # bare file roots (written to <out>/unknown without passing through resolvePath): focused configuration
    fmodel = run_tlc("MCExtractFS", "ExtractFS_froot_guardTRUE.cfg", timeout=1800)
    tlc_must_pass(fmodel, "ExtractFS.tla invariant Contained with file roots")
    fnoguard = run_tlc("MCExtractFS", "ExtractFS_froot_guardFALSE.cfg", timeout=1800)
    fem = run_tlc("MCExtractFS", "ExtractFS_froot_emit.cfg", timeout=2400)
    tlc_must_pass(fem, "ExtractFS.tla emitter (file roots)")
    rc2, rep2 = harness_run(vh, ["extract-replay", fem["out"], "@REPORT", car], timeout=3400)
    absorb(rep2, "file_root")
    # directory entries named a/x and a/x/y (one and two levels below what may be a symlink): focused configuration
    dmodel = run_tlc("MCExtractFS", "ExtractFS_deep_guardTRUE.cfg", timeout=1800)
    tlc_must_pass(dmodel, "ExtractFS.tla invariant Contained with deep directory names")
    dem = run_tlc("MCExtractFS", "ExtractFS_deep_emit.cfg", timeout=2400)
    tlc_must_pass(dem, "ExtractFS.tla emitter (deep directory names)")
    rc4, rep4 = harness_run(vh, ["extract-replay", dem["out"], "@REPORT", car, "hamt=all"], timeout=3400)
    absorb(rep4, "deep_dirname")
    # three entries of one name (directory / symlink / file), some with their block missing from the archive
    smodel = run_tlc("MCExtractFS", "ExtractFS_same3_guardTRUE.cfg", timeout=1800)
    tlc_must_pass(smodel, "ExtractFS.tla invariant Contained with three same-named entries")
    sem = run_tlc("MCExtractFS", "ExtractFS_same3_emit.cfg", timeout=2400)
    tlc_must_pass(sem, "ExtractFS.tla emitter (three same-named entries)")
    rc5, rep5 = harness_run(vh, ["extract-replay", sem["out"], "@REPORT", car, "hamt=all"], timeout=3400)
    absorb(rep5, "same_name_triples")
    # car extract --path: lookups by name meet pre-existing links and entries whose block is missing
    pmodel = run_tlc("MCExtractFS", "ExtractFS_path_guardTRUE.cfg", timeout=1800)
    tlc_must_pass(pmodel, "ExtractFS.tla invariant Contained with --path")
    pem = run_tlc("MCExtractFS", "ExtractFS_path_emit.cfg", timeout=2400)
    tlc_must_pass(pem, "ExtractFS.tla emitter (--path)")
    rc6, rep6 = harness_run(vh, ["extract-replay", pem["out"], "@REPORT", car, "hamt=all"], timeout=3400)
    absorb(rep6, "path_option")
    # entry names that resolve to the output directory itself ("..", "."), and names one suffix away from another entry's
    zmodel = run_tlc("MCExtractFS", "ExtractFS_rootname_guardTRUE.cfg", timeout=1800)
    tlc_must_pass(zmodel, "ExtractFS.tla invariant Contained with root-resolving and suffixed names")
    zem = run_tlc("MCExtractFS", "ExtractFS_rootname_emit.cfg", timeout=2400)
    tlc_must_pass(zem, "ExtractFS.tla emitter (root-resolving and suffixed names)")
    rc7, rep7 = harness_run(vh, ["extract-replay", zem["out"], "@REPORT", car, "hamt=all"], timeout=3400)
    absorb(rep7, "rootname_and_suffix")
    rep["counters"]["file_root_states"] = fmodel["distinct"]
    cov = merge_cov(model, em, rep, {
        "file_roots": "archives of <= 3 top-level items over {file root (extracted as <out>/unknown), file/symlink/directory named 'unknown' or 'a'} x output directory {empty, 'unknown' a symlink "
                      "to the sentinel file / dangling outside / to the sentinel directory, a directory, a file}: %d archives; without the final-component guard TLC gives: %s"
                      % (rep2["counters"].get("archives", 0), fnoguard.get("violated")),
        "rule": "every archive of <= %d top-level entries over {file, symlink, directory (with <= 1 child)} x names {a, b, ../a, a/b, ..} x 6 symlink targets (relative and absolute, to the sentinel file, the sentinel "
                "directory, inside, dangling outside) x output directory {empty, holding a symlink to the sentinel file, a symlink to the sentinel directory, a directory}, each as one root with (possibly repeated) "
                "names and as two roots; the built car binary extracts it inside a sandbox and a recursive snapshot (names, types, contents, link targets, mtimes) of everything outside the output directory "
                "is compared before/after; the model's predicted tree inside the output directory is compared as an I-layer check" % 2 + three,
        "exhaustive": True, "explanation": "TLC checks Contained on the complete bounded state graph of ExtractFS.tla; without the guard it yields the counterexample: %s" % noguard.get("violated")})
    finish("C17", "model_checking", cov, rep["violations"] or [], inconclusive=rep.get("inconclusive") or None, drift=rep.get("model_drift") or None,
           assumptions=["kernel path resolution is what the model says (the verdict itself is the real snapshot comparison)", "plain (unsharded) directories; HAMT-sharded directories are not generated"])


def check_C18():
    vh = build_harness()
    car = vlib.build_car()
    cfg = "Tree_1" if tier() == "quick" else "Tree_2"
    model = run_tlc("MCTree", cfg + ".cfg", timeout=1800)
    tlc_must_pass(model, "Tree.tla RoundTrip")
    em = run_tlc("MCTree", cfg + "_emit.cfg", timeout=2400)
    tlc_must_pass(em, "Tree.tla emitter")
    pm = 150 if tier() == "quick" else 20     # thorough: 20 permille of ~12 M cases (60 permille took an hour next to other jobs)
    rc, rep = harness_run(vh, ["tree-replay", em["out"], "@REPORT", car, "seed=%d" % seed(), "permille=%d" % pm], timeout=3400)
    os.remove(em["out"])
    cov = {"evaluations": rep["evaluations"], "distinct_nontrivial": rep["distinct_nontrivial"],
           "rule": "TLC enumerates every tree of <= 2 top-level entries over {empty / small / identical-content / unicode-named / exactly-one-chunk / multi-chunk / repeated-chunk files, relative / absolute / "
                   "dangling / non-clean symlinks, a file whose bytes are the dag-pb block of an empty directory, directories (one with a space in its name) with <= %d children, a directory of 1300 long-named entries that "
                   "`car create` packs as a HAMT-sharded directory (checked in the archive)} x --version {1,2} x --no-wrap x source path spelled {/abs, ., dir/.} x extraction from {file, stdin pipe} (%d cases); a seeded "
                   "%d permille sample is materialised as a real tree, packed by the built `car create`, `car root` is compared with the single header root (which must be among the blocks), and the archive "
                   "is extracted and compared entry by entry (names, content length+hash, link targets) with the source tree re-rooted as Tree.tla says" % (1 if tier() == "quick" else 2, em["distinct"], pm),
           "samples": rep["samples"] or [{}], "model_cases": em["distinct"], "states": model["distinct"], "counters": rep["counters"]}
    finish("C18", "exploration", cov, rep["violations"] or [], inconclusive=rep.get("inconclusive") or None,
           assumptions=["chunking and HAMT sharding happen inside go-unixfsnode; the specification only makes sure the size classes are generated and treats the sharded directory as one opaque entry"])


def check_C19():
    vh = build_harness()
    car = vlib.build_car()
    cfg = "Cli_2" if tier() == "quick" else "Cli_3"
    model = run_tlc("MCCli", cfg + ".cfg", timeout=2400)
    tlc_must_pass(model, "Cli.tla FilterSound / ConcatLen")
    em = run_tlc("MCCli", cfg + "_emit.cfg", timeout=2400)
    tlc_must_pass(em, "Cli.tla emitter")
    pm = 40 if tier() == "quick" else 120
    rc, rep = harness_run(vh, ["cli-replay", em["out"], "@REPORT", car, "seed=%d" % seed(), "permille=%d" % pm], timeout=3400)
    # filter in depth: longer archives with repeated blocks, every selection, no sampling
    emf = run_tlc("MCCli", "Cli_F_emit.cfg", timeout=2400)
    tlc_must_pass(emf, "Cli.tla emitter (filter config)")
    rcf, repf = harness_run(vh, ["cli-replay", emf["out"], "@REPORT", car, "only=filter", "permille=%d" % (250 if tier() == "quick" else 1000), "seed=%d" % seed()], timeout=3400)
    rep["evaluations"] += repf["evaluations"]
    rep["distinct_nontrivial"] += repf["distinct_nontrivial"]
    rep["violations"] = (rep["violations"] or []) + (repf["violations"] or [])
    # the repository's own build links cmd against the RELEASED library (cmd/go.mod has no replace): the filter
    # configuration once more with a CLI built that way, so that a change in cmd/ that leans on the released
    # library's behaviour is seen as the repository's build would show it
    car_rel = vlib.build_car(link="released")
    rcr, repr_ = harness_run(vh, ["cli-replay", emf["out"], "@REPORT", car_rel, "only=filter", "permille=%d" % (250 if tier() == "quick" else 1000), "seed=%d" % seed()], timeout=3400)
    for v in (repr_["violations"] or []):
        v["class"] = v.get("class", "") + "/cli-linked-with-released-library"
    rep["evaluations"] += repr_["evaluations"]
    rep["distinct_nontrivial"] += repr_["distinct_nontrivial"]
    rep["violations"] = (rep["violations"] or []) + (repr_["violations"] or [])
    rep["counters"]["filter_cases_with_released_library_cli"] = repr_["evaluations"]
    rcb, repb = harness_run(vh, ["cli-replay", emf["out"], "@REPORT", car_rel, "only=big"], timeout=1200)
    for v in (repb["violations"] or []):
        v["class"] = v.get("class", "") + "/cli-linked-with-released-library"
    rep["evaluations"] += repb["evaluations"]
    rep["violations"] = (rep["violations"] or []) + (repb["violations"] or [])
    # car get-dag against Traversal.tla: DAGs x selectors x visit-once x incomplete stores x --strict
    gcfgs = [("Traversal_G3", 1000), ("Traversal_G", 100)] if tier() == "quick" else [("Traversal_G", 1000)]
    gd_cases = 0
    for gcfg, gpm in gcfgs:
        gm = run_tlc("MCTraversal", gcfg + ".cfg", timeout=1200)
        tlc_must_pass(gm, "Traversal.tla invariants (%s)" % gcfg)
        gem = run_tlc("MCTraversal", gcfg + "_emit.cfg", timeout=1200)
        tlc_must_pass(gem, "Traversal.tla emitter (%s)" % gcfg)
        rcg, repg = harness_run(vh, ["getdag-replay", gem["out"], "@REPORT", car, "seed=%d" % seed(), "permille=%d" % gpm], timeout=3400)
        rep["evaluations"] += repg["evaluations"]
        rep["distinct_nontrivial"] += repg["distinct_nontrivial"]
        rep["violations"] = (rep["violations"] or []) + (repg["violations"] or [])
        rep["inconclusive"] = (rep.get("inconclusive") or []) + (repg.get("inconclusive") or [])
        rep["samples"] = (rep["samples"] or []) + (repg["samples"] or [])[:2]
        gd_cases += repg["evaluations"]
    rep["counters"]["get_dag_cases"] = gd_cases
    cov = {"evaluations": rep["evaluations"], "distinct_nontrivial": rep["distinct_nontrivial"], "states": model["distinct"], "transitions": model["states"],
           "get_dag": "car get-dag x {v1, v2} on every DAG over 3 nodes (and a sample / thorough: all of those over 4 nodes) stored in reverse order x {default (visit-once), --selector with explore-all, "
                      "depth 2, field paths} x store {complete, n3 missing, n2 and n4 missing} x --strict: the output must hold the root and exactly the first occurrences of Traversal.tla's load "
                      "sequence in order (a lenient walk skips a missing block and everything below it, a strict one fails), and pass car inspect --full and car verify: %d cases" % gd_cases,
           "rule": "(plus car filter / --append with every selection of <= 2 CIDs on archives of <= 4 sections over 3 blocks with repetitions) every archive of <= %d sections over 7 blocks (same multihash/other codec, CIDv0, identity, varint-boundary lengths, duplicates) x 3 root lists x {CARv1, CARv2+mh index, CARv2 padded + sorted "
                   "index, CARv2 padded index-less}: car list, car index x {both codecs, none} x {v1,v2}, car index create x 2 codecs, car detach-index, car get-block for 7 CIDs, car concat (v1 and the "
                   "known-broken v2), car get-dag x {v1,v2}, and a seeded %d permille sample of car filter x {<= 2 selected CIDs, inverse, v1/v2} and filter --append; outputs are compared byte-for-byte with "
                   "the reference encoding of the archive Cli.tla gives (index: record multiset between the regenerated index without / with identity CIDs), and every emitted archive is given to "
                   "car inspect --full and, when its roots are among its blocks, car verify" % (2 if tier() == "quick" else 3, pm),
           "samples": rep["samples"] or [{}], "counters": rep["counters"], "model_cases": em["distinct"]}
    finish("C19", "exploration", cov, rep["violations"] or [], inconclusive=rep.get("inconclusive") or None)


def check_C15():
    n = 4
    vh = build_harness()
    model = run_tlc("MCTraversal", "Traversal_%d.cfg" % n, timeout=1200)
    tlc_must_pass(model, "Traversal.tla OutHasNoRepeats / OnceMeansNoRepeatedLoads / BudgetRespected")
    size = run_tlc("MCTraversal", "Traversal_3_size.cfg", timeout=600)   # SizeAgreement fails in the model when loads repeat (documented)
    em = run_tlc("MCTraversal", "Traversal_%d_emit.cfg" % n, timeout=1200)
    tlc_must_pass(em, "Traversal.tla emitter")
    rc, rep = harness_run(vh, ["traversal-replay", em["out"], "@REPORT"], timeout=3000)
    extra = {}
    for xcfg, what in (("Traversal_D", "two (root, selector) pairs n1, n2 through the root module's SelectiveCar (fresh visit-once record and budget per pair, output = first occurrences over both)"),
                       ("Traversal_A", "the last node's bytes linked under a second codec as well (same multihash, other CID: a block of its own) over all DAGs on 3 nodes")):
        xm = run_tlc("MCTraversal", xcfg + ".cfg", timeout=1200)
        tlc_must_pass(xm, "Traversal.tla invariants (%s)" % xcfg)
        xe = run_tlc("MCTraversal", xcfg + "_emit.cfg", timeout=1200)
        tlc_must_pass(xe, "Traversal.tla emitter (%s)" % xcfg)
        rcx, repx = harness_run(vh, ["traversal-replay", xe["out"], "@REPORT"], timeout=3000)
        rep["evaluations"] += repx["evaluations"]
        rep["distinct_nontrivial"] += repx["distinct_nontrivial"]
        rep["violations"] = (rep["violations"] or []) + (repx["violations"] or [])
        rep["inconclusive"] = (rep.get("inconclusive") or []) + (repx.get("inconclusive") or [])
        rep["model_drift"] = (rep.get("model_drift") or []) + (repx.get("model_drift") or [])
        extra[xcfg] = "%s: %d cases" % (what, repx["evaluations"])
    cov = merge_cov(model, em, rep, {
        "further_configurations": extra,
        "rule": "every DAG over 4 nodes (ordered links to later nodes only, <= 3 links at the root and <= 2 elsewhere, repeats and shared subtrees, dag-cbor inner nodes and raw leaves) x selector "
                "{explore-all-recursive, depth-limited 1..3, field paths <<1>>, <<2>>, <<1,1>>, <<2,1>> ending in a matcher} x link-visit-once on/off x link budget {none, 1, 3}, with paddings and index codec / none varied per case; each through v2 NewSelectiveWriter "
                "(both passes recorded), TraverseV1, TraverseToFile, root-module SelectiveCar Write / Prepare (Size, Cids) / Dump with block callbacks; the observed load sequence of the wrapped link system "
                "is the oracle for 'exactly the loaded blocks, once, first-visit order'; sizes, returned counts, Dump==Write, callback offsets/sizes and the index are checked; the model's Loads is compared "
                "with the observed loads (drift)",
        "exhaustive": True, "explanation": "TLC evaluates the DFS model on all bounded DAGs; SizeAgreement (counted = written) is violated in the model exactly when a load repeats: %s" % size.get("violated")})
    finish("C15", "model_checking", cov, rep["violations"] or [], inconclusive=rep.get("inconclusive") or None, drift=rep.get("model_drift") or None,
           assumptions=["go-ipld-prime's selector semantics beyond explore-all, depth-limited recursion and field paths are not modelled (unions, conditions, interpret-as)", "a writer that returns an error early (budget exceeded) has not output a CAR"])


def check_C09():
    vh = build_harness()
    model = run_tlc("Parser", "Parser.cfg", timeout=900)
    tlc_must_pass(model, "Parser.tla (Terminates, Progress, NoBigAlloc, ExactLimit)")
    modelz = run_tlc("Parser", "Parser_zero.cfg", timeout=900)
    tlc_must_pass(modelz, "Parser.tla with ZeroLengthSectionAsEOF")
    em = run_tlc("Parser", "Parser_matrix.cfg", workers=1, timeout=300)
    tlc_must_pass(em, "Parser.tla limit matrix")
    rc, lrep = harness_run(vh, ["parser-limits", em["out"], "@REPORT"], timeout=1800)
    per = 700 if tier() == "quick" else 60000
    rc2, frep = harness_run(vh, ["parser-fuzz", "@REPORT", "seed=%d" % seed(), "per=%d" % per], timeout=3400)
    viols = (lrep["violations"] or []) + (frep["violations"] or [])
    cov = {"evaluations": lrep["evaluations"] + frep["evaluations"], "distinct_nontrivial": lrep["distinct_nontrivial"] + max(2, frep["counters"].get("accepted_inputs", 0)),
           "states": model["distinct"] + modelz["distinct"], "transitions": model["states"] + modelz["states"],
           "rule": "(1) Parser.tla: the token-level scanner terminates and never buffers above the limit on every token string of <= 4 tokens (TLC, with fairness); (2) the exact-limit matrix it defines "
                   "(limit-1 / limit / limit+1, header and section) on %d entry points x {CARv1, CARv2} x 2 root lists x 3 section sizes, plus headers/sections announcing 2^26 / 2^40 / 2^63-1 bytes that "
                   "must be refused without a large allocation (TotalAlloc delta); (3) 16 child processes x %d inputs (field-aware mutations of 28 valid CARv1/CARv2/index files: u64/u32 overwrites "
                   "with boundary values, varint splices incl. overflowing ones, bit flips, truncations, insertions, duplications; and raw random strings) x 3 option sets through all %d entry points, "
                   "watching for panics (recover + process status), hangs (10 s watchdog) and allocation above limits + 64 MiB + 64 x input. distinct_nontrivial counts inputs accepted without error" % (19, per, 19),
           "samples": (lrep["samples"] or []) + (frep["samples"] or []) or [{}], "counters": frep["counters"]}
    finish("C09", "exploration", cov, viols, inconclusive=(lrep.get("inconclusive") or []) + (frep.get("inconclusive") or []) or None,
           assumptions=["go-cid itself allows a 32 MiB digest allocation irrespective of go-car's limits, hence the 64 MiB constant", "panics, termination and allocation on arbitrary bytes are facts of the compiled code: decided by execution, the specification contributes the limit matrix and the scanner's termination argument"])
