#!/usr/bin/env python3
"""Confirms every seeded change under /tmp/mut/<ID>/out in a scratch worktree of /repo HEAD:
   the change applies and compiles, the pinned suite passes with it, its demonstration fails with it
   and passes without it. Writes /verif/seeded/<ID>-<A|B>/{patch.diff, demo file, meta.json}."""
import json, os, re, shutil, subprocess, sys
from concurrent.futures import ThreadPoolExecutor

ENV = dict(os.environ, GOFLAGS="-mod=mod", GOPROXY="off", GOSUMDB="off", GOTOOLCHAIN="local")
# id -> (module dir, package dir relative to module, go test -run regex) per variant
T = {
 "C01": {"A": ("v2", "./blockstore/", "TestDemoA"), "B": ("v2", "./blockstore/", "TestDemoB")},
 "C02": {"A": ("v2", ".", "TestDemoA"), "B": (".", ".", "TestDemoB")},
 "C03": {"A": ("v2", ".", "TestDemoA"), "B": ("v2", ".", "TestDemoB")},
 "C04": {"A": ("v2", "./blockstore/", "TestDemoA"), "B": ("v2", "./blockstore/", "TestDemoB")},
 "C05": {"A": ("v2", "./blockstore/", "TestDemoA"), "B": ("v2", "./storage/", "TestDemoB")},
 "C06": {"A": ("v2", "./storage/", "TestDemoA"), "B": ("v2", "./blockstore/", "TestDemoB")},
 "C07": {"A": ("v2", "./blockstore/", "TestDemoA"), "B": ("v2", "./blockstore/", "TestDemoB")},
 "C08": {"A": ("v2", "./blockstore/", "TestC08DemoA"), "B": ("v2", "./storage/", "TestC08DemoB")},
 "C09": {"A": ("v2", ".", "TestC09A"), "B": (".", ".", "TestC09B")},
 "C10": {"A": ("v2", ".", "TestC10ADemo"), "B": ("v2", ".", "TestC10BDemo")},
 "C11": {"A": ("v2", "./index/", "TestDemoA"), "B": ("v2", "./index/", "TestDemoB")},
 "C12": {"A": ("v2", "./blockstore/", "TestDemoA"), "B": ("v2", "./blockstore/", "TestDemoB")},
 "C13": {"A": ("v2", ".", "TestDemoA_"), "B": ("v2", ".", "TestDemoB_")},
 "C14": {"A": ("v2", ".", "TestDemoA"), "B": ("v2", ".", "TestDemoB")},
 "C15": {"A": (".", ".", "TestC15ADemo"), "B": ("v2", ".", "TestC15BDemo")},
 "C16": {"A": ("v2", "./storage/", "TestDemoA"), "B": ("v2", "./storage/", "TestDemoB")},
 "C17": {"A": ("cmd", "./car/lib/", "TestDemoA"), "B": ("cmd", "./car/lib/", "TestDemoB")},
 "C18": {"A": ("cmd", "./car/", "TestDemoA"), "B": ("cmd", "./car/", "TestDemoB")},
 "C19": {"A": ("cmd", "./car/lib/", "TestDemoAFilterDuplicateThenLater"), "B": ("cmd", "./car/", "TestDemoBIndexSectionLengthBoundary")},
 "C20": {"A": ("v2", "./storage/deferred/", "TestDemoA"), "B": ("v2", "./storage/deferred/", "TestDemoB")},
}

ROOT, PREFIX, ROUND = "/tmp/mut", "", 1
for _r in (2, 3, 4, 5, 6, 7, 8):
    if "--round%d" % _r in sys.argv:
        sys.argv.remove("--round%d" % _r)
        ROOT, PREFIX, ROUND = "/tmp/mut%d" % _r, "r%d-" % _r, _r


def derive(demo):
    """(module dir, package, -run regex) from the demonstration's header comment."""
    head = "".join(open(demo).readlines()[:6])
    m = re.search(r"-run\s+'?([\w|_]+)'?((?:\s+-\w+)*)\s+(\S+)", head)
    run, pkg = m.group(1), m.group(3).rstrip(").,;")
    if "cd cmd" in head or "cmd/car" in head:
        mod = "cmd"
    elif re.search(r"\bv2\b", head.replace("go-car/v2", "go-car/v2 ")):
        mod = "v2"
    else:
        mod = "."
    # "cd v2/storage && go test ... ." : the package is given by the directory
    m2 = re.search(r"cd\s+(\S+)\s*&&", head)
    if m2 and pkg in ("", "."):
        d = re.sub(r"^(?:.*?/wt(?:/|$)|<worktree>/?)", "", m2.group(1)).strip("/")
        parts = d.split("/")
        if parts and parts[0] in ("v2", "cmd"):
            mod, parts = parts[0], parts[1:]
        if parts and parts != ["."]:
            pkg = "./" + "/".join(parts) + "/"
    return mod, pkg, run


def sh(cmd, cwd, timeout=1200):
    p = subprocess.run(cmd, cwd=cwd, env=ENV, stdout=subprocess.PIPE, stderr=subprocess.STDOUT, text=True, timeout=timeout, shell=isinstance(cmd, str))
    return p.returncode, p.stdout[-3000:]

def one(job):
    pid, var, slot = job
    out = "%s/%s/out" % (ROOT, pid)
    patch = os.path.join(out, var + ".rebased.diff")
    rebased = os.path.exists(patch)
    if not rebased:
        patch = os.path.join(out, var + ".patch.diff")
    demo = os.path.join(out, var + "_demo_test.go")
    meta = {"property": pid, "variant": var, "patch_rebased_onto_current_head": rebased}
    if not (os.path.exists(patch) and os.path.exists(demo)):
        meta["status"] = "missing files"
        return pid, var, meta
    wt = "/tmp/seedwt%d-%d" % (ROUND, slot)
    subprocess.run(["git", "-C", "/repo", "worktree", "remove", "--force", wt], capture_output=True)
    shutil.rmtree(wt, ignore_errors=True)
    subprocess.run(["git", "-C", "/repo", "worktree", "add", "-q", "--detach", wt, "HEAD"], check=True)
    try:
        rc, o = sh(["git", "apply", "--3way", patch], wt)
        if rc != 0:
            meta["status"] = "patch does not apply to the current HEAD (superseded by a fix in the same lines)"
            meta["apply_output"] = o[-500:]
            return pid, var, meta
        sh(["git", "reset", "-q"], wt)
        mod, pkg, run = T[pid][var] if ROUND == 1 else derive(demo)
        moddir = os.path.join(wt, mod)
        suite = {}
        for m in (".", "cmd", "v2"):
            rc, o = sh(["go", "test", "-vet=off", "-count=1", "./..."], os.path.join(wt, m))
            suite[m] = "pass" if rc == 0 else "FAIL: " + o[-400:]
        meta["pinned_suite_with_change"] = suite
        dst = os.path.join(moddir, pkg, "zz_seeded_demo_%s_test.go" % var.lower())
        shutil.copy(demo, dst)
        cmd = ["go", "test", "-vet=off", "-count=1", "-run", run, pkg]
        if pid == "C08":
            cmd.insert(2, "-race")
        rc1, o1 = sh(cmd, moddir)
        meta["demo_cmd"] = "cd %s && %s  (demo copied to %s)" % (mod, " ".join(cmd), os.path.relpath(dst, wt))
        meta["demo_with_change"] = "fails" if rc1 != 0 else "PASSES (unexpected)"
        meta["demo_with_change_output"] = o1[-600:]
        sh("git checkout -- . ", wt)
        rc2, o2 = sh(cmd, moddir)
        meta["demo_without_change"] = "passes" if rc2 == 0 else "FAILS (unexpected): " + o2[-400:]
        ok = all(v == "pass" for v in suite.values()) and rc1 != 0 and rc2 == 0
        meta["status"] = "confirmed" if ok else "not confirmed"
        meta["repo_head"] = subprocess.run(["git", "-C", "/repo", "log", "--format=%h", "-1"], capture_output=True, text=True).stdout.strip()
        meta["round"] = ROUND
        d = "/verif/seeded/%s%s-%s" % (PREFIX, pid, var)
        os.makedirs(d, exist_ok=True)
        shutil.copy(patch, os.path.join(d, "patch.diff"))
        shutil.copy(demo, os.path.join(d, os.path.basename(demo)))
        notes = os.path.join(out, "notes.md")
        if os.path.exists(notes):
            shutil.copy(notes, os.path.join(d, "notes_from_author.md"))
        return pid, var, meta
    finally:
        subprocess.run(["git", "-C", "/repo", "worktree", "remove", "--force", wt], capture_output=True)
        shutil.rmtree(wt, ignore_errors=True)

def main():
    only = sys.argv[1:]
    jobs = []
    i = 0
    for pid in sorted(T):
        for var in ("A", "B"):
            if only and pid not in only and (pid + "-" + var) not in only:
                continue
            jobs.append((pid, var, i % 6))
            i += 1
    # 4 slots, each slot sequential
    results = []
    def runslot(s):
        out = []
        for j in jobs:
            if j[2] != s:
                continue
            try:
                out.append(one(j))
            except Exception as e:     # one odd demonstration header must not lose the other results
                out.append((j[0], j[1], {"property": j[0], "variant": j[1], "status": "error: %r" % (e,)}))
        return out
    with ThreadPoolExecutor(6) as ex:
        for r in ex.map(runslot, range(6)):
            results += r
    for pid, var, meta in sorted(results):
        d = "/verif/seeded/%s%s-%s" % (PREFIX, pid, var)
        os.makedirs(d, exist_ok=True)
        old = {}
        mp = os.path.join(d, "meta.json")
        if os.path.exists(mp):
            old = json.load(open(mp))
        old.update(meta)
        json.dump(old, open(mp, "w"), indent=1)
        print(pid, var, meta.get("status"), meta.get("pinned_suite_with_change"), meta.get("demo_with_change"), meta.get("demo_without_change"))

main()
