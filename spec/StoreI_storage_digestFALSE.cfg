CONSTANTS
  OptSet <- IOpts
  RootSets <- IRoots
  PutIds <- IPuts
  ProbeIds <- IProbes
  MaxSecs = 3
  DedupeByDigest = FALSE
  Kind = "storage"
SPECIFICATION Spec
CHECK_DEADLOCK FALSE
INVARIANTS ObserversAgree IndexMatchesFile PosIsEnd
PROPERTY StepAdmitted
