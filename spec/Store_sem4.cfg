CONSTANTS
  OptSet <- SemOpts
  RootSets <- SemRoots
  PutIds <- SemPutIds
  ManyArgs <- SemMany
  ProbeIds <- SemProbes
  MaxSecs = 4
SPECIFICATION Spec
INVARIANTS TypeOK NoDupKeys NoIdent NoOversize PutVisible FinOnlyV2 LayoutOK
PROPERTIES AppendOnly ClosedFrozen Typestate RoNoWrites OptsFixed
CHECK_DEADLOCK FALSE
