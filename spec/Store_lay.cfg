CONSTANTS
  OptSet <- LayOpts
  RootSets <- LayRoots
  PutIds <- LayPutIds
  ManyArgs <- LayMany
  ProbeIds <- LayProbes
  MaxSecs = 2
SPECIFICATION Spec
INVARIANTS TypeOK NoDupKeys NoIdent NoOversize PutVisible FinOnlyV2 LayoutOK
PROPERTIES AppendOnly ClosedFrozen Typestate RoNoWrites OptsFixed
CHECK_DEADLOCK FALSE
