-------------------------------- MODULE StoreI --------------------------------
(***************************************************************************)
(* I-layer of the writable stores: shaped like blockstore/readwrite.go,    *)
(* storage/storage.go and internal/store/indexcheck.go.                    *)
(*   idx      : the insertion index, a set of records [b, off] looked up   *)
(*              by DIGEST (the LLRB is keyed by the bare digest)           *)
(*   pos      : payload-relative write position                            *)
(*   file     : sequence of sections (block ids) on disk                   *)
(*   closed, finalized : the typestate flags of the code                   *)
(*   res      : result of the last call                                    *)
(* ShouldPut is transcribed with its exact order of tests; the constant    *)
(* DedupeByDigest selects the original de-duplication test (idx.Get, which *)
(* matches on the digest bytes only) or the repaired one (HasMultihash).   *)
(* The refinement mapping into the P-layer Store.tla is                    *)
(*   secs = file,  phase from the flags,  fin = finalized /\ ~v1           *)
(* and TLC checks, for every reachable I-state and every operation, that   *)
(* the I-layer result and successor are admitted by Store!Outcomes.        *)
(***************************************************************************)
EXTENDS CarBase

CONSTANTS OptSet, RootSets, PutIds, ProbeIds, MaxSecs, DedupeByDigest, Kind

VARIABLES o, roots, idx, pos, file, closed, finalized, res, lastop
vars == <<o, roots, idx, pos, file, closed, finalized, res, lastop>>

P == INSTANCE Store WITH ManyArgs <- {}, st <- [o |-> o, roots |-> roots, secs |-> file,
        phase |-> IF closed THEN "closed" ELSE IF finalized THEN "ro" ELSE "open", fin |-> finalized /\ ~o.v1]

Init == /\ o \in OptSet /\ roots \in RootSets
        /\ idx = {} /\ pos = HeaderLen(roots) /\ file = <<>> /\ closed = FALSE /\ finalized = FALSE
        /\ res = "none" /\ lastop = [op |-> "none"]

(* index primitives, as in insertionindex.go *)
GetByDigest(b)   == \E r \in idx : SameDig(r.b, b)
HasMultihash(b)  == \E r \in idx : SameDig(r.b, b) /\ SameMh(r.b, b)
HasExactCID(b)   == \E r \in idx : SameDig(r.b, b) /\ SameCid(r.b, b)

(* store.ShouldPut: "skip" | "err" | "put" *)
ShouldPut(b) ==
  IF ~o.ident /\ IsIdent(b) THEN "skip"
  ELSE IF Blk[b].clen > o.maxcid THEN "err"
  ELSE IF ~o.dup
    THEN IF o.whole THEN (IF HasExactCID(b) THEN "skip" ELSE "put")
         ELSE IF DedupeByDigest THEN (IF GetByDigest(b) THEN "skip" ELSE "put")
         ELSE (IF HasMultihash(b) THEN "skip" ELSE "put")
  ELSE "put"

Put(b) ==
  /\ lastop' = [op |-> "put", b |-> b]
  /\ IF closed \/ (finalized /\ Kind = "blockstore")
       THEN res' = "err" /\ UNCHANGED <<idx, pos, file>>
     ELSE LET d == ShouldPut(b) IN
       IF d = "err" THEN res' = "err" /\ UNCHANGED <<idx, pos, file>>
       ELSE IF d = "skip" THEN res' = "ok" /\ UNCHANGED <<idx, pos, file>>
       ELSE /\ Len(file) < MaxSecs
            /\ res' = "ok"
            /\ file' = Append(file, b)                      \* LdWrite: varint, CID, data at pos
            /\ idx' = idx \cup {[b |-> b, off |-> pos]}       \* InsertNoReplace after the write
            /\ pos' = pos + SectionLen(b)
  /\ UNCHANGED <<o, roots, closed, finalized>>

(* finalizeReadOnlyWithoutMutex: <<error?, finalized'>> given (closed, finalized) *)
FroStep(c, z) == IF o.v1 THEN <<FALSE, TRUE>>
                 ELSE IF c THEN <<TRUE, z>>
                 ELSE IF z THEN <<TRUE, z>>
                 ELSE <<FALSE, TRUE>>
(* closeWithoutMutex: <<error?, closed'>> given (closed, finalized after the first step) *)
CloseStep(c, z) == IF ~o.v1 /\ ~z THEN <<TRUE, c>>
                   ELSE IF c THEN <<TRUE, c>>
                   ELSE <<FALSE, TRUE>>

Finalize ==
  /\ lastop' = [op |-> "finalize"]
  /\ IF Kind = "blockstore"
       THEN \* Finalize evaluates finalizeReadOnlyWithoutMutex AND closeWithoutMutex, then reports the first error
            LET f == FroStep(closed, finalized) c == CloseStep(closed, f[2]) IN
            /\ res' = (IF f[1] \/ c[1] THEN "err" ELSE "ok")
            /\ finalized' = f[2]
            /\ closed' = c[2]
       ELSE /\ res' = (IF closed THEN "err" ELSE "ok")
            /\ closed' = TRUE /\ finalized' = (finalized \/ ~closed)
  /\ UNCHANGED <<o, roots, idx, pos, file>>

FinalizeRO ==
  /\ Kind = "blockstore"
  /\ lastop' = [op |-> "finalize_ro"]
  /\ LET f == FroStep(closed, finalized) IN res' = (IF f[1] THEN "err" ELSE "ok") /\ finalized' = f[2]
  /\ UNCHANGED <<o, roots, idx, pos, file, closed>>

Discard ==
  /\ Kind = "blockstore"
  /\ lastop' = [op |-> "discard"] /\ res' = "ok" /\ closed' = TRUE
  /\ UNCHANGED <<o, roots, idx, pos, file, finalized>>

Next == (\E b \in PutIds : Put(b)) \/ Finalize \/ FinalizeRO \/ Discard
Spec == Init /\ [][Next]_vars

---------------------------------------------------------------------------
(* Refinement: the step just taken is one the P-layer admits *)
PState(f, c, z) == [o |-> o, roots |-> roots, secs |-> f, phase |-> IF c THEN "closed" ELSE IF z THEN "ro" ELSE "open", fin |-> z /\ ~o.v1]

StepAdmitted ==
  [][ LET before == PState(file, closed, finalized)
          after  == PState(file', closed', finalized')
          op == lastop'
          popop == IF op.op = "put" THEN [op |-> "put", b |-> op.b] ELSE [op |-> op.op]
      IN \E a \in P!Outcomes(before, popop) : res' \in a.res /\ a.next = after ]_vars

(* observers of the I-layer (store.Has / FindCid) agree with the P-layer *)
HasI(q) == IF ~o.ident /\ IsIdent(q) THEN TRUE ELSE IF o.whole THEN HasExactCID(q) ELSE HasMultihash(q)
ObserversAgree == ~closed => \A q \in ProbeIds : (IF HasI(q) THEN "true" ELSE "false") \in P!HasAllowed(PState(file, closed, finalized), q)
IndexMatchesFile == { r.b : r \in idx } = { file[i] : i \in 1..Len(file) }
PosIsEnd == pos = PayloadLen(roots, file)
=============================================================================
