CONSTANTS
  Entries <- ZEntries
  DirNames <- ZDirNames
  MaxTop = 2
  MaxChild = 1
  PreStates <- ZPre
  GuardFinal = TRUE
  FileRoots = FALSE
  MatchPaths <- NoMatch
SPECIFICATION Spec
CHECK_DEADLOCK FALSE
INVARIANT Contained
