CONSTANTS
  Entries <- QEntries
  DirNames <- QDirNames
  MaxTop = 2
  MaxChild = 1
  PreStates <- QPre
  GuardFinal = TRUE
  FileRoots = FALSE
  MatchPaths <- NoMatch
SPECIFICATION Spec
CHECK_DEADLOCK FALSE
INVARIANT Emit
