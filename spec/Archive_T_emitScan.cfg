CONSTANTS
  RootLists <- TruncRoots
  SecIds <- IdsT
  MaxLen = 2
  Conts <- TruncConts
  Probes <- ProbesStd
SPECIFICATION Spec
CHECK_DEADLOCK FALSE
INVARIANT EmitScan
