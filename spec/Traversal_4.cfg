CONSTANTS
  Nodes <- Nodes4
  MaxKids = 3
  Alias = FALSE
  Options <- Opts
SPECIFICATION Spec
CHECK_DEADLOCK FALSE
INVARIANTS OutHasNoRepeats OnceMeansNoRepeatedLoads BudgetRespected
