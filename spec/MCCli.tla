-------------------------------- MODULE MCCli --------------------------------
EXTENDS Cli
C(v, dp, ip, ix, f, np) == [ver |-> v, dpad |-> dp, ipad |-> ip, idx |-> ix, full |-> f, npad |-> np]
CliConts == { C(1, 0, 0, "none", FALSE, 0), C(2, 0, 0, "mh", FALSE, 0), C(2, 1, 7, "sorted", FALSE, 0), C(2, 59, 0, "none", FALSE, 0) }
CliRoots == { <<>>, <<"b1">>, <<"b3", "b4">>, <<"b5">> }     \* b5: an identity CID as a root (and, in some inputs, stored as a block)
CliIds   == {"b1", "b2", "b3", "b4", "b5", "b9", "b13", "b14"}     \* b9: a 20-byte digest (a second width group in `detach-index list`)
FConts == { C(1, 0, 0, "none", FALSE, 0), C(2, 0, 0, "mh", FALSE, 0) }
FRoots == { <<"b1">> }
FIds   == {"b1", "b4", "b2"}
=============================================================================
