CONSTANTS
  Procs = {"g1", "g2", "g3"}
  Prog <- P3
  KeysSnapshot = FALSE
SPECIFICATION Spec
INVARIANTS NoConflict MutexOK Linearizable DedupeOnce FileMatchesIndex NoDeadlock
PROPERTY Termination
CHECK_DEADLOCK FALSE
