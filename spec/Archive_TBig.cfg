CONSTANTS
  RootLists <- TruncRootsBig
  SecIds <- IdsTBig
  MaxLen = 2
  Conts <- TruncContsBig
  Probes <- ProbesStd
SPECIFICATION Spec
CHECK_DEADLOCK FALSE
INVARIANTS ScanMatchesIndex OffsetsInsidePayload MhRefinesDigest StatsCount
