CONSTANTS
  Entries <- PEntries
  DirNames <- PDirNames
  MaxTop = 2
  MaxChild = 1
  PreStates <- QPre
  GuardFinal = TRUE
  FileRoots = FALSE
  MatchPaths <- PMatch
SPECIFICATION Spec
CHECK_DEADLOCK FALSE
INVARIANT Contained
