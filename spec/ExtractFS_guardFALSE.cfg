CONSTANTS
  Entries <- QEntries
  DirNames <- QDirNames
  MaxTop = 2
  MaxChild = 1
  PreStates <- QPre
  GuardFinal = FALSE
  FileRoots = FALSE
SPECIFICATION Spec
CHECK_DEADLOCK FALSE
INVARIANT Contained
