CONSTANTS
  RootLists <- StdRoots
  SecIds <- IdsU
  MaxLen = 3
  Conts <- SmallConts
  Probes <- ProbesStd
SPECIFICATION Spec
CHECK_DEADLOCK FALSE
INVARIANTS ScanMatchesIndex OffsetsInsidePayload MhRefinesDigest StatsCount
