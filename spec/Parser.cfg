CONSTANTS
  MaxHeader = 3
  MaxSection = 2
  Lens = {0, 1, 2, 3, 4}
  MaxTokens = 4
  ZeroIsEOF = FALSE
SPECIFICATION Spec
CHECK_DEADLOCK FALSE
INVARIANTS NoBigAlloc ExactLimit
PROPERTIES Terminates Progress FinalIsStable
