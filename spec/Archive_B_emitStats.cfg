CONSTANTS
  RootLists <- StdRoots
  SecIds <- IdsB
  MaxLen = 3
  Conts <- StdConts
  Probes <- ProbesStd
SPECIFICATION Spec
CHECK_DEADLOCK FALSE
INVARIANT EmitStats
