-------------------------------- MODULE Conc --------------------------------
(***************************************************************************)
(* I-layer: the lock discipline of the writable stores under concurrent    *)
(* use (C08), one action per critical-section boundary, as in              *)
(* blockstore/readwrite.go, blockstore/readonly.go and storage/storage.go: *)
(*                                                                         *)
(*   Put / PutMany / Finalize / ReadWrite.Has : mu.Lock ; body ; Unlock    *)
(*   Get / GetSize / storage.Has             : mu.RLock ; body ; RUnlock   *)
(*   ReadOnly.AllKeysChan  : RLock ; spawn iterator that keeps the read    *)
(*                           lock until it is drained                      *)
(*   ReadWrite.AllKeysChan : Lock ; body ; Unlock ; iterate                *)
(*        KeysSnapshot = TRUE : the keys are copied inside the critical    *)
(*                              section (the repaired code)                *)
(*        KeysSnapshot = FALSE: the index is walked after Unlock (the      *)
(*                              original code) -- NoConflict fails         *)
(*                                                                         *)
(* Shared state: idx (set of stored keys), closed.  acc records who is     *)
(* touching idx right now and how.  TLC checks                             *)
(*   NoConflict   no write access to idx concurrent with any other access  *)
(*   MutexOK      writer excludes everyone                                 *)
(*   Linearizable every completed operation's result equals the result of  *)
(*                the sequential Store model at its linearization point    *)
(*   DedupeOnce   a key is appended to the file at most once               *)
(*   deadlock freedom (TLC's own check; every program runs to completion)  *)
(***************************************************************************)
EXTENDS Integers, Sequences, FiniteSets, TLC

CONSTANTS Procs,          \* goroutine ids
          Prog,           \* Prog[p] : sequence of operations [op, k] ; op \in {"put","has","get","keys","finalize"}
          KeysSnapshot    \* BOOLEAN

VARIABLES pc,       \* pc[p] : [i: index in Prog[p], s: "idle"|"want"|"in"|"iter"|"done"]
          lockW,    \* holder of the write lock or "none"
          lockR,    \* set of read-lock holders
          idx,      \* set of keys in the index
          file,     \* sequence of keys appended to the file
          closed,
          acc,      \* set of <<proc, "r"|"w">> : in-flight accesses to idx
          res,      \* res[p] : sequence of results of completed operations
          lin       \* lin[p] : sequence of the model results at the linearization points
vars == <<pc, lockW, lockR, idx, file, closed, acc, res, lin>>

Op(p)   == Prog[p][pc[p].i]
IsWrite(o) == o.op \in {"put", "finalize", "keys", "has"}     \* ReadWrite takes the write lock for these

Init == /\ pc = [p \in Procs |-> [i |-> 1, s |-> IF Len(Prog[p]) = 0 THEN "done" ELSE "idle"]]
        /\ lockW = "none" /\ lockR = {} /\ idx = {} /\ file = <<>> /\ closed = FALSE /\ acc = {}
        /\ res = [p \in Procs |-> <<>>] /\ lin = [p \in Procs |-> <<>>]

(* sequential model: result of o in state (idx, closed) *)
ModelRes(o, ix, cl) ==
  CASE o.op = "put"      -> IF cl THEN "err" ELSE "ok"
    [] o.op = "has"      -> IF cl THEN "err" ELSE IF o.k \in ix THEN "true" ELSE "false"
    [] o.op = "get"      -> IF cl THEN "err" ELSE IF o.k \in ix THEN "found" ELSE "notfound"
    [] o.op = "keys"     -> IF cl THEN "err" ELSE ix
    [] o.op = "finalize" -> IF cl THEN "err" ELSE "ok"

Invoke(p) == /\ pc[p].s = "idle"
             /\ pc' = [pc EXCEPT ![p].s = "want"]
             /\ UNCHANGED <<lockW, lockR, idx, file, closed, acc, res, lin>>

Acquire(p) ==
  /\ pc[p].s = "want"
  /\ IF IsWrite(Op(p))
       THEN lockW = "none" /\ lockR = {} /\ lockW' = p /\ UNCHANGED lockR
       ELSE lockW = "none" /\ lockR' = lockR \cup {p} /\ UNCHANGED lockW
  /\ pc' = [pc EXCEPT ![p].s = "in"]
  /\ acc' = acc \cup {<<p, IF Op(p).op \in {"put"} THEN "w" ELSE "r">>}
  /\ UNCHANGED <<idx, file, closed, res, lin>>

Finish(p, r) ==
  /\ res' = [res EXCEPT ![p] = Append(@, r)]
  /\ pc' = [pc EXCEPT ![p] = IF pc[p].i = Len(Prog[p]) THEN [i |-> pc[p].i, s |-> "done"] ELSE [i |-> pc[p].i + 1, s |-> "idle"]]

(* body + release, one atomic step (the body runs entirely under the lock) *)
BodyRelease(p) ==
  /\ pc[p].s = "in"
  /\ LET o == Op(p) r == ModelRes(o, idx, closed) IN
     /\ lin' = [lin EXCEPT ![p] = Append(@, r)]
     /\ IF o.op = "put" /\ ~closed /\ o.k \notin idx
          THEN idx' = idx \cup {o.k} /\ file' = Append(file, o.k)
          ELSE UNCHANGED <<idx, file>>
     /\ closed' = (closed \/ o.op = "finalize")
     /\ lockW' = IF lockW = p THEN "none" ELSE lockW
     /\ lockR' = lockR \ {p}
     /\ IF o.op = "keys" /\ ~closed /\ ~KeysSnapshot
          THEN \* original code: unlock, then walk the index outside the lock
               /\ pc' = [pc EXCEPT ![p].s = "iter"]
               /\ acc' = acc          \* the read access stays in flight
               /\ UNCHANGED res
          ELSE /\ acc' = { a \in acc : a[1] # p }
               /\ Finish(p, r)

(* the unlocked walk of the index ends some time later; it reports whatever is there then *)
IterEnd(p) ==
  /\ pc[p].s = "iter"
  /\ acc' = { a \in acc : a[1] # p }
  /\ Finish(p, idx)
  /\ UNCHANGED <<lockW, lockR, idx, file, closed, lin>>

Next == \E p \in Procs : Invoke(p) \/ Acquire(p) \/ BodyRelease(p) \/ IterEnd(p)
Spec == Init /\ [][Next]_vars /\ WF_vars(Next)

---------------------------------------------------------------------------
NoConflict == \A a, b \in acc : a[1] # b[1] => (a[2] = "r" /\ b[2] = "r")
MutexOK    == (lockW # "none" => lockR = {}) /\ (\A a \in acc : a[2] = "w" => lockW = a[1])
Linearizable == \A p \in Procs : \A i \in 1..Len(res[p]) : i <= Len(lin[p]) => res[p][i] = lin[p][i]
DedupeOnce == \A i, j \in 1..Len(file) : file[i] = file[j] => i = j
FileMatchesIndex == { file[i] : i \in 1..Len(file) } = idx
AllDone == \A p \in Procs : pc[p].s = "done"
Termination == <>AllDone
NoDeadlock == AllDone \/ ENABLED Next
=============================================================================
