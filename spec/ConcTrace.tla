----------------------------- MODULE ConcTrace -----------------------------
(***************************************************************************)
(* C08, code -> spec: histories of concurrent runs on the real stores.     *)
(* Events are totally ordered by a sequence number taken from one counter  *)
(* (the "lin" events inside the store's lock, by the verif hook), so the   *)
(* linearization order is recorded, not searched:                          *)
(*   inv(g, op, key) ; lin(g, op, key) ; resp(g, op, key, res)             *)
(* The P-layer model is the sequential set model of Store.tla reduced to   *)
(* keys: idx (set of stored keys) and closed.  At each lin event the       *)
(* model is stepped and the expected result remembered; at the resp event  *)
(* the real result must equal it.  Because lin lies between inv and resp,  *)
(* the order respects real time: a Put that returned is seen by every      *)
(* later Has/Get, and nothing is reported that was never put.              *)
(***************************************************************************)
EXTENDS Integers, Sequences, FiniteSets, TLC, Json, IOUtils, SequencesExt

Hist == ndJsonDeserialize(IOEnv.VERIF_HIST)

VARIABLES l, run, idx, closed, pend
vars == <<l, run, idx, closed, pend>>
(* pend : function g -> [state: "none"|"inv"|"lin", exp, low] *)

E == Hist[l]
None == [state |-> "none", exp |-> "", low |-> {}]
Init == l = 1 /\ run = 0 /\ idx = {} /\ closed = FALSE /\ pend = [g \in {} |-> None]

Reset == /\ l <= Len(Hist) /\ E.run # run
         /\ run' = E.run /\ idx' = {} /\ closed' = FALSE /\ pend' = [g \in {} |-> None]
         /\ UNCHANGED l

ModelRes(op, k) ==
  CASE op = "put"      -> IF closed THEN "err" ELSE "ok"
    [] op = "has"      -> IF closed THEN "err" ELSE IF k \in idx THEN "true" ELSE "false"
    [] op = "get"      -> IF closed THEN "err" ELSE IF k \in idx THEN "found" ELSE "notfound"
    [] op = "getsize"  -> IF closed THEN "err" ELSE IF k \in idx THEN "found" ELSE "notfound"
    [] op = "keys"     -> IF closed THEN "err" ELSE "set"
    [] op = "finalize" -> IF closed THEN "err" ELSE "ok"
    [] OTHER -> "?"

Set(g, v) == [x \in DOMAIN pend \cup {g} |-> IF x = g THEN v ELSE pend[x]]

Inv == /\ E.ev = "inv"
       /\ pend' = Set(E.g, [state |-> "inv", exp |-> "", low |-> {}])
       /\ UNCHANGED <<idx, closed>>

Lin == /\ E.ev = "lin"
       /\ E.g \in DOMAIN pend /\ pend[E.g].state = "inv"
       /\ pend' = Set(E.g, [state |-> "lin", exp |-> ModelRes(E.op, E.key), low |-> idx])
       /\ idx' = IF E.op = "put" /\ ~closed THEN idx \cup {E.key} ELSE idx
       /\ closed' = (closed \/ E.op = "finalize")

RespOK ==
  LET p == pend[E.g] IN
  \/ E.res = "skip"
  \* Roots reads the immutable header and takes no lock: no linearization event; the answer is the
  \* root list the store was created with ("roots"), or an error once the store is closed
  \/ E.op = "roots" /\ E.res \in {"roots", "err"}
  \/ /\ p.state = "lin"
     /\ IF E.res = "set"
          THEN /\ p.exp = "set"
               /\ p.low \subseteq ToSet(E.set)        \* everything stored when the listing started
               /\ ToSet(E.set) \subseteq idx          \* and nothing that was never put
          ELSE E.res = p.exp

Resp == /\ E.ev = "resp"
        /\ E.g \in DOMAIN pend
        /\ (IF RespOK THEN TRUE ELSE PrintT(<<"REJECT", l>>))
        /\ pend' = Set(E.g, None)
        /\ UNCHANGED <<idx, closed>>

Step == l <= Len(Hist) /\ (Reset \/ (E.run = run /\ (Inv \/ Lin \/ Resp) /\ l' = l + 1 /\ UNCHANGED run))
Spec == Init /\ [][Step]_vars

Stuck == (l <= Len(Hist) /\ ~ENABLED Step) => PrintT(<<"STUCK", l>>)
Done  == l > Len(Hist) => PrintT(<<"VALIDATED", Len(Hist)>>)
=============================================================================
