-------------------------------- MODULE Store --------------------------------
(***************************************************************************)
(* P-layer specification of the writable CAR stores                        *)
(*   blockstore.ReadWrite  and  storage.StorageCar (readable-writable)     *)
(* as an append-only content-addressed map with a typestate (C04), the     *)
(* layout of the file they leave behind (C05) and resumption (C12).        *)
(*                                                                         *)
(* The abstract state is a record                                          *)
(*   st = [o: options, roots, secs, phase, fin]                            *)
(* secs  : the sequence of stored sections (block ids), in put order       *)
(* phase : "open" | "ro" (FinalizeReadOnly done) | "closed"                *)
(* fin   : the on-disk file carries a final CARv2 header + index           *)
(*                                                                         *)
(* Transitions are given by the operator Outcomes(st, op): the set of      *)
(* alternatives [res, next] the property allows, where res is the set of   *)
(* admissible result kinds.  More than one alternative / result appears    *)
(* exactly where the property statement is silent.  Next is derived from   *)
(* Outcomes, and the very same operator is what the emitter prints for the *)
(* replayer, so TLC checks and the conformance harness use one relation.   *)
(***************************************************************************)
EXTENDS CarBase, Json

CONSTANTS
  OptSet,      \* set of option records [whole, dup, ident, v1, maxcid, maxsec, dpad, ipad, codec]
  RootSets,    \* set of root lists (sequences of block ids)
  PutIds,      \* block ids offered to Put
  ManyArgs,    \* set of block-id sequences offered to PutMany
  ProbeIds,    \* block ids whose CIDs are used as queries
  MaxSecs      \* bound on Len(secs)

VARIABLE st
vars == <<st>>

---------------------------------------------------------------------------
Key(o, b)        == StoreKey(o.whole, b)
Carries(o, s, b) == \E i \in 1..Len(s) : Key(o, s[i]) = Key(o, b)
IdSkip(o, b)     == IsIdent(b) /\ ~o.ident
Oversize(o, b)   == Blk[b].clen > o.maxcid

(* one Put on an open store: <<results, secs'>> *)
Put1(o, s, b) ==
  IF IdSkip(o, b)
    THEN IF Oversize(o, b) THEN <<{"ok", "err"}, s>> ELSE <<{"ok"}, s>>   \* IdStore rule: accepted, not stored
  ELSE IF Oversize(o, b) THEN <<{"err"}, s>>
  ELSE IF ~o.dup /\ Carries(o, s, b) THEN <<{"ok"}, s>>
  ELSE <<{"ok"}, Append(s, b)>>

Frozen(s) == [res |-> {"err"}, next |-> s]
NoIndexPossible(o) == o.codec = "none" /\ ~o.v1

Ops ==
       {[op |-> "put", b |-> b] : b \in PutIds}
  \cup {[op |-> "putmany", bs |-> bs] : bs \in ManyArgs}
  \cup {[op |-> "finalize"], [op |-> "finalize_ro"], [op |-> "close"], [op |-> "discard"]}
  \cup {[op |-> "reopen", how |-> h] :
          h \in {"same", "roots_other", "roots_codec", "roots_extra", "roots_fewer", "dpad", "dpad_far", "version"}}

(* storage.StorageCar has neither PutMany, FinalizeReadOnly nor Close; "discard" for it is
   simply dropping the instance. *)
KindsOf(op) == IF op.op \in {"putmany", "finalize_ro", "close"} THEN {"blockstore"}
               ELSE {"blockstore", "storage"}

(* Fold PutMany: every prefix outcome; the call fails at the first failing element.
   What a failed PutMany has stored of its earlier elements is not fixed by the property:
   every prefix is admitted. *)
RECURSIVE ManyFrom(_, _, _, _)
ManyFrom(o, s, bs, i) ==
  IF i > Len(bs) THEN {[res |-> {"ok"}, secs |-> s]}
  ELSE LET p == Put1(o, s, bs[i]) IN
       (IF "err" \in p[1] THEN {[res |-> {"err"}, secs |-> s]} ELSE {})
       \cup (IF "ok" \in p[1] THEN ManyFrom(o, p[2], bs, i + 1) ELSE {})

Outcomes(s, op) ==
  LET o == s.o IN
  CASE op.op = "put" ->
         IF s.phase = "open"
           THEN LET p == Put1(o, s.secs, op.b) IN
                IF Len(p[2]) > MaxSecs THEN {} ELSE {[res |-> p[1], next |-> [s EXCEPT !.secs = p[2]]]}
           ELSE {Frozen(s)}
    [] op.op = "putmany" ->
         IF s.phase = "open"
           THEN {[res |-> m.res, next |-> [s EXCEPT !.secs = m.secs]] :
                    m \in {x \in ManyFrom(o, s.secs, op.bs, 1) : Len(x.secs) <= MaxSecs}}
           ELSE {Frozen(s)}
    [] op.op = "finalize" ->
         IF s.phase = "open"
           \* an option set under which no index can be flattened (codec "none", CARv2): Finalize fails and
           \* writes nothing -- and the store is closed all the same ("after Finalize every lookup returns an error")
           THEN IF NoIndexPossible(o)
                  THEN {[res |-> {"err"}, next |-> [s EXCEPT !.phase = "closed"]]}
                  ELSE {[res |-> {"ok"}, next |-> [s EXCEPT !.phase = "closed", !.fin = ~o.v1]]}
         ELSE IF s.phase = "ro"
           \* "After Finalize ... every lookup returns an error": whatever the call reports (the header and
           \* index are already written), the store is closed afterwards
           THEN {[res |-> {"ok", "err"}, next |-> [s EXCEPT !.phase = "closed"]]}
         ELSE {[res |-> {"ok", "err"}, next |-> s]}
    [] op.op = "finalize_ro" ->
         IF s.phase = "open"
           THEN IF NoIndexPossible(o)
                  THEN {[res |-> {"err"}, next |-> [s EXCEPT !.phase = "ro"]]}      \* no more writes; reads go on
                  ELSE {[res |-> {"ok"}, next |-> [s EXCEPT !.phase = "ro", !.fin = ~o.v1]]}
           ELSE {[res |-> {"ok", "err"}, next |-> s]}
    [] op.op = "close" ->
         IF s.phase = "open"
           \* Close before finalisation: the code refuses (CARv2) or closes (CARv1); property silent
           THEN {[res |-> {"ok", "err"}, next |-> s],
                 [res |-> {"ok", "err"}, next |-> [s EXCEPT !.phase = "closed"]]}
         ELSE {[res |-> {"ok", "err"}, next |-> [s EXCEPT !.phase = "closed"]]}
    [] op.op = "discard" ->
         {[res |-> {"ok"}, next |-> [s EXCEPT !.phase = "closed"]]}
    [] op.op = "reopen" ->
         IF s.phase # "closed" THEN {}
         ELSE IF op.how = "same"
           THEN {[res |-> {"ok"}, next |-> [s EXCEPT !.phase = "open", !.fin = FALSE]]}
         ELSE IF op.how \in {"roots_fewer", "roots_codec"} /\ Len(s.roots) = 0 THEN {}
         \* data padding is meaningless for CARv1 output; "dpad_far" asks for a padding that puts the
         \* data offset beyond the end of the existing file
         ELSE IF op.how \in {"dpad", "dpad_far"} /\ o.v1 THEN {}
         ELSE {Frozen(s)}                              \* refused, file untouched
    [] OTHER -> {}

---------------------------------------------------------------------------
(* Observers are functions of the abstract state.  Each gives the SET of allowed answers. *)
DataOf(o, s, q) == { Blk[s[i]].data : i \in { j \in 1..Len(s) : Key(o, s[j]) = Key(o, q) } }

HasAllowed(s, q) ==
  IF s.phase = "closed"
    THEN IF IdSkip(s.o, q) THEN {"true", "err"} ELSE {"err"}
  ELSE IF IdSkip(s.o, q) \/ Carries(s.o, s.secs, q) THEN {"true"} ELSE {"false"}

GetAllowed(s, q) ==
  IF s.phase = "closed"
    THEN IF IdSkip(s.o, q) THEN {Blk[q].data, "err"} ELSE {"err"}
  ELSE IF IdSkip(s.o, q) THEN {Blk[q].data}
  ELSE IF Carries(s.o, s.secs, q) THEN DataOf(s.o, s.secs, q) ELSE {"notfound"}

LenOfData(d) == LET b == CHOOSE x \in AllBlockIds : Blk[x].data = d IN Blk[b].len
SizeAllowed(s, q) ==
  IF s.phase = "closed"
    THEN IF IsIdent(q) THEN {"err", ToString(Blk[q].dlen)} ELSE {"err"}
  ELSE IF IdSkip(s.o, q) THEN {ToString(Blk[q].dlen)}
  ELSE IF Carries(s.o, s.secs, q) THEN { ToString(LenOfData(d)) : d \in DataOf(s.o, s.secs, q) }
  \* an identity CID's size is its digest length whether or not it is stored: both answers admitted
  ELSE IF IsIdent(q) THEN {"notfound", ToString(Blk[q].dlen)} ELSE {"notfound"}

Obs(s) == [q \in ProbeIds |-> [has |-> HasAllowed(s, q), get |-> GetAllowed(s, q), size |-> SizeAllowed(s, q)]]

(* C05: what the file must be, as a function of the abstract state *)
FileOf(s) ==
  LET o == s.o  plen == PayloadLen(s.roots, s.secs) IN
  IF o.v1 THEN [kind |-> "v1", len |-> plen]
  ELSE IF ~s.fin THEN [kind |-> "v2open", dataOff |-> DataOffsetOf(o.dpad), len |-> DataOffsetOf(o.dpad) + plen]
  ELSE [kind |-> "v2", dataOff |-> DataOffsetOf(o.dpad), dataSize |-> plen,
        idxOff |-> IndexOffsetOf(o.dpad, o.ipad, plen), full |-> o.ident,
        recs |-> [i \in 1..Len(IndexRecs(s.roots, s.secs, o.ident)) |->
                    LET r == IndexRecs(s.roots, s.secs, o.ident)[i] IN <<r.b, r.off>>]]

---------------------------------------------------------------------------
Init ==
  \E o \in OptSet, r \in RootSets :
     st = [o |-> o, roots |-> r, secs |-> <<>>, phase |-> "open", fin |-> FALSE]

Next ==
  \E op \in Ops : \E a \in Outcomes(st, op) :
     st' = a.next

Spec == Init /\ [][Next]_vars

---------------------------------------------------------------------------
(* Model-level properties checked by TLC on the P-layer *)
TypeOK ==
  /\ st.phase \in {"open", "ro", "closed"}
  /\ st.fin \in BOOLEAN
  /\ \A i \in 1..Len(st.secs) : st.secs[i] \in PutIds \cup UNION {Range(m) : m \in ManyArgs}
  /\ Len(st.secs) <= MaxSecs

NoDupKeys  == ~st.o.dup => \A i, j \in 1..Len(st.secs) : Key(st.o, st.secs[i]) = Key(st.o, st.secs[j]) => i = j
NoIdent    == ~st.o.ident => \A i \in 1..Len(st.secs) : ~IsIdent(st.secs[i])
NoOversize == \A i \in 1..Len(st.secs) : ~Oversize(st.o, st.secs[i])
PutVisible == st.phase # "closed" => \A i \in 1..Len(st.secs) : HasAllowed(st, st.secs[i]) = {"true"}
               /\ Blk[st.secs[i]].data \in GetAllowed(st, st.secs[i])
FinOnlyV2  == st.fin => ~st.o.v1
(* header arithmetic of C05 *)
LayoutOK   == (st.fin /\ ~st.o.v1) =>
                LET f == FileOf(st) IN
                /\ f.dataOff = 51 + st.o.dpad
                /\ f.idxOff = f.dataOff + f.dataSize + st.o.ipad
                /\ \A i \in 1..Len(f.recs) : f.recs[i][2] >= HeaderLen(st.roots) /\ f.recs[i][2] < f.dataSize

AppendOnly   == [][IsPrefix(st.secs, st'.secs)]_vars
ClosedFrozen == [][st.phase = "closed" /\ st'.phase = "closed" => st' = st]_vars
Typestate    == [][st.phase = "closed" => (st'.phase = "closed" \/ (st'.phase = "open" /\ st'.secs = st.secs))]_vars
RoNoWrites   == [][st.phase = "ro" => st'.secs = st.secs /\ st'.fin = st.fin]_vars
OptsFixed    == [][st'.o = st.o /\ st'.roots = st.roots]_vars

---------------------------------------------------------------------------
(* Emitter: one JSON line per reachable abstract state with its observation table, file
   description and outgoing transition relation.  The replayer walks this graph. *)
Trans(s) == { [op |-> op, kinds |-> KindsOf(op), alts |-> Outcomes(s, op)] : op \in {x \in Ops : Outcomes(s, x) # {}} }
Emit == PrintT(ToJson([rec |-> "state", s |-> st, obs |-> Obs(st), file |-> FileOf(st), trans |-> Trans(st)]))

=============================================================================
