CONSTANTS
  RootLists <- StdRoots
  SecIds <- IdsBig
  MaxLen = 2
  Conts <- StdConts
  Probes <- ProbesStd
SPECIFICATION Spec
CHECK_DEADLOCK FALSE
INVARIANT EmitStats
