CONSTANTS
  Nodes <- Nodes3
  MaxKids = 3
  Options <- Opts
SPECIFICATION Spec
CHECK_DEADLOCK FALSE
INVARIANT Emit
