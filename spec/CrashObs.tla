------------------------------ MODULE CrashObs ------------------------------
(***************************************************************************)
(* C06 / C16, code -> spec.  Each record is what the real resumption code  *)
(* did with one crash image (or fault point) of one recorded session:      *)
(*   acked  : blocks whose Put had returned when the session was cut       *)
(*   put    : blocks whose Put had at least been called                    *)
(*   reopen : "ok" | "err"                                                 *)
(*   intact : (refused reopen) every acknowledged section is still on disk *)
(*   keys   : blocks the resumed store reports                             *)
(*   unknown: reported keys that were never put                            *)
(*   getok  : every reported and every acknowledged block reads back intact*)
(*   contok : two more puts + Finalize gave a well-formed archive holding  *)
(*            every acknowledged block and the new ones                    *)
(* CrashSafe is the statement of C06.                                      *)
(***************************************************************************)
EXTENDS Integers, Sequences, FiniteSets, TLC, Json, IOUtils, SequencesExt

Obs == ndJsonDeserialize(IOEnv.VERIF_OBS)

CrashSafe(o) ==
  \/ /\ o.reopen = "err"
     /\ o.intact
  \/ /\ o.reopen = "ok"
     /\ ToSet(o.acked) \subseteq ToSet(o.keys)
     /\ ToSet(o.keys) \subseteq ToSet(o.put)
     /\ o.unknown = 0
     /\ o.getok
     /\ o.contok

VARIABLE i
Init == i = 1
Next == i <= Len(Obs) /\ i' = i + 1
Spec == Init /\ [][Next]_i
Check == i <= Len(Obs) => (CrashSafe(Obs[i]) \/ PrintT(<<"REJECT", i>>))
Done  == i > Len(Obs) => PrintT(<<"VALIDATED", Len(Obs)>>)
=============================================================================
