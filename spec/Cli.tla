--------------------------------- MODULE Cli ---------------------------------
(***************************************************************************)
(* The car sub-commands as operators on abstract archives (C19).           *)
(* Each operator gives the abstract archive (or listing / bytes) the       *)
(* command must emit for a given input archive and flags; Inspectable and  *)
(* Verifiable are the closure predicates of the property.                  *)
(* Output blockstores use the library defaults: de-duplication by          *)
(* multihash, identity CIDs not stored.                                    *)
(***************************************************************************)
EXTENDS ArchiveOps, Json

CONSTANTS RootLists, SecIds, MaxLen, Conts

VARIABLES a, stage
vars == <<a, stage>>

Mk(r, s, c) == [roots |-> r, secs |-> s, ver |-> c.ver, dpad |-> c.dpad, ipad |-> c.ipad, idx |-> c.idx,
                full |-> c.full, npad |-> c.npad]
Init == stage = 0 /\ \E r \in RootLists, c \in Conts : a = Mk(r, <<>>, c)
Pick == stage = 0 /\ stage' = 1 /\ \E k \in 0..MaxLen : \E s \in [1..k -> SecIds] : a' = [a EXCEPT !.secs = s]
Spec == Init /\ [][Pick]_vars

(* what a default read-write blockstore keeps of a put sequence *)
RECURSIVE Dedupe(_, _)
Dedupe(acc, s) ==
  IF s = <<>> THEN acc
  ELSE LET b == Head(s) IN
       IF IsIdent(b) \/ (\E i \in 1..Len(acc) : SameMh(acc[i], b)) THEN Dedupe(acc, Tail(s))
       ELSE Dedupe(Append(acc, b), Tail(s))

OutV(ver, r, s) == [roots |-> r, secs |-> s, ver |-> ver, dpad |-> 0, ipad |-> 0,
                    idx |-> IF ver = 2 THEN "mh" ELSE "none", full |-> FALSE, npad |-> 0]

(* car filter: S a set of block ids whose CIDs are listed *)
Match(S, inv, b) == IF \E x \in S : SameCid(x, b) THEN ~inv ELSE inv
Filter(x, S, inv, ver) ==
  OutV(ver, SelectSeq(x.roots, LAMBDA b : Match(S, inv, b)), Dedupe(<<>>, SelectSeq(x.secs, LAMBDA b : Match(S, inv, b))))
(* --append: existing output y (CARv2) keeps its roots; the selected blocks follow its sections *)
FilterAppend(x, y, S, inv) ==
  OutV(2, y.roots, Dedupe(Dedupe(<<>>, y.secs), SelectSeq(x.secs, LAMBDA b : Match(S, inv, b))))

(* car index: payload unchanged; every section gets a record (identity included) *)
Index(x, codec, ver) ==
  IF ver = 1 THEN [x EXCEPT !.ver = 1, !.dpad = 0, !.ipad = 0, !.idx = "none", !.full = FALSE]
  ELSE [x EXCEPT !.ver = 2, !.dpad = 0, !.ipad = 0, !.idx = codec, !.full = FALSE]
IndexRecordsLow(x)  == IndexRecs(x.roots, x.secs, FALSE)     \* a regenerated index without identity CIDs
IndexRecordsHigh(x) == IndexRecs(x.roots, x.secs, TRUE)      \* ... and with them

(* car detach-index list: one line "<multihash> <offset>" per record of a detached index. Only the multihash-sorted
   codec can be iterated (the digest-only codec answers "not iterable"). The lines are, as a bag, the records of the
   index; they come grouped by hash code and then by digest width, both ascending (inside a group the digest bytes
   ascend: an I-layer fact, digests are symbolic here -- the harness holds the order to the reference decoder's). *)
DetachListOk(codec) == codec = "mh"
KeyLess(r, s) == r.hcode < s.hcode \/ (r.hcode = s.hcode /\ r.dlen < s.dlen)
DetachList(x, storeIdent) == SortSeq(IndexRecs(x.roots, x.secs, storeIdent), KeyLess)
GroupKeys(rs) == [i \in 1..Len(rs) |-> <<rs[i].hcode, rs[i].dlen>>]
(* model-level sanity: listing is a permutation of the records and its keys never descend *)
DetachListSound == stage = 1 => \A si \in BOOLEAN :
   LET l == DetachList(a, si) r == IndexRecs(a.roots, a.secs, si) IN
   /\ Len(l) = Len(r)
   /\ \A i \in 1..Len(r) : Cardinality({ j \in 1..Len(l) : l[j] = r[i] }) = Cardinality({ j \in 1..Len(r) : r[j] = r[i] })
   /\ \A i, j \in 1..Len(l) : i < j => ~KeyLess(l[j], l[i])

(* car list *)
List(x) == x.secs
(* car get-block *)
GetBlock(x, q) == { Blk[x.secs[i]].data : i \in { j \in 1..Len(x.secs) : SameMh(x.secs[j], q) } }
(* car concat: the first input's roots, all sections *)
RECURSIVE ConcatSecs(_)
ConcatSecs(xs) == IF xs = <<>> THEN <<>> ELSE Head(xs).secs \o ConcatSecs(Tail(xs))
Concat(xs) == OutV(1, Head(xs).roots, ConcatSecs(xs))
(* a second input whose header has another length than any generated input's: two roots, a CIDv0 first *)
Other == OutV(1, <<"b3", "b4">>, <<"b4", "b9">>)

(* closure predicates *)
Inspectable(x) == \A i \in 1..Len(x.secs) : Blk[x.secs[i]].valid
Verifiable(x)  == /\ Inspectable(x) /\ Len(x.roots) > 0
                  /\ \A r \in 1..Len(x.roots) : \E i \in 1..Len(x.secs) : SameCid(x.secs[i], x.roots[r])

(* model-level sanity: filtering never invents or reorders blocks, and is idempotent *)
IsSubSeqOf(s, t) == \E f \in [1..Len(s) -> 1..Len(t)] : (\A i \in 1..Len(s) : t[f[i]] = s[i]) /\ (\A i, j \in 1..Len(s) : i < j => f[i] < f[j])
FilterSound ==
  stage = 1 => \A S \in SUBSET SecIds : \A inv \in BOOLEAN :
     LET o == Filter(a, S, inv, 2) IN
     /\ IsSubSeqOf(o.secs, a.secs)
     /\ Filter(o, S, inv, 2).secs = o.secs
ConcatLen == stage = 1 => /\ Len(Concat(<<a, a>>).secs) = 2 * Len(a.secs)
                          /\ Concat(<<a, Other, a>>).roots = a.roots
                          /\ Len(Concat(<<Other, a>>).secs) = Len(Other.secs) + Len(a.secs)

Subsets == { S \in SUBSET SecIds : Cardinality(S) <= 2 }
Emit == stage = 1 => PrintT(ToJson([rec |-> "cli", a |-> a,
           filter |-> { [sel |-> S, inv |-> inv, ver |-> v, out |-> Filter(a, S, inv, v)] : S \in Subsets, inv \in BOOLEAN, v \in {1, 2} },
           inspectable |-> Inspectable(a), verifiable |-> Verifiable(a),
           reclow |-> [i \in 1..Len(IndexRecordsLow(a)) |-> <<IndexRecordsLow(a)[i].b, IndexRecordsLow(a)[i].off>>],
           rechigh |-> [i \in 1..Len(IndexRecordsHigh(a)) |-> <<IndexRecordsHigh(a)[i].b, IndexRecordsHigh(a)[i].off>>],
           list |-> List(a),
           detok |-> [c \in {"mh", "sorted"} |-> DetachListOk(c)],
           detkeyslow |-> GroupKeys(DetachList(a, FALSE)), detkeyshigh |-> GroupKeys(DetachList(a, TRUE)),
           getblock |-> [q \in SecIds |-> GetBlock(a, q)],
           append |-> { [s1 |-> {x}, s2 |-> {y}, out |-> FilterAppend(a, Filter(a, {x}, FALSE, 2), {y}, FALSE)] : x \in SecIds, y \in SecIds },
           concat2 |-> Concat(<<a, a>>), other |-> Other, concat_ao |-> Concat(<<a, Other>>), concat_oa |-> Concat(<<Other, a>>),
           concat_aoa |-> Concat(<<a, Other, a>>)]))
=============================================================================
