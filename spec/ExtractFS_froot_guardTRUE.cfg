CONSTANTS
  Entries <- UEntries
  DirNames <- UDirNames
  MaxTop = 2
  MaxChild = 1
  PreStates <- UPre
  GuardFinal = TRUE
  FileRoots = TRUE
  MatchPaths <- NoMatch
SPECIFICATION Spec
CHECK_DEADLOCK FALSE
INVARIANT Contained
