CONSTANTS
  Entries <- UEntries
  DirNames <- UDirNames
  MaxTop = 2
  MaxChild = 1
  PreStates <- UPre
  GuardFinal = TRUE
  FileRoots = TRUE
SPECIFICATION Spec
CHECK_DEADLOCK FALSE
INVARIANT Contained
