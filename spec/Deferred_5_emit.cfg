CONSTANTS
  Cfgs <- DCfgs
  Roots <- DRoots
  PutIds = {"b1", "b2", "b5"}
  HasIds = {"b1", "b4"}
  MaxOps = 5
  MaxCbs = 3
SPECIFICATION Spec
CHECK_DEADLOCK FALSE
INVARIANT Emit
