------------------------------ MODULE Traversal ------------------------------
(***************************************************************************)
(* Selector traversal over a small DAG and the CAR it must produce (C15).  *)
(*                                                                         *)
(* A DAG is Kids: node -> sequence of nodes (ordered links, repeats and    *)
(* shared subtrees allowed; links only go to higher-numbered nodes, so it  *)
(* is acyclic, as content addressing guarantees).  Every node is one block.*)
(* The walk mirrors go-ipld-prime's: depth first, a link is loaded when    *)
(* the selector still explores it, unless link-visit-once is on and the    *)
(* link was seen before; every load spends one unit of the link budget.    *)
(* The root is loaded by the caller and is never in `seen`.                *)
(* Alias = TRUE adds one more name, <last node>r: the SAME bytes as the    *)
(* last node (a leaf) linked under another codec -- another CID, the same  *)
(* multihash.  It is a block of its own: loaded, counted and written       *)
(* separately.                                                             *)
(* opt.dags = 2 (root module's SelectiveCar only): two (root, selector)    *)
(* pairs, n1 and n2; each is walked with a fresh `seen` and budget, the    *)
(* loads follow one another and the output is their first occurrences.     *)
(* opt.miss is a set of nodes whose blocks are absent from the store: a    *)
(* lenient walker (car get-dag without --strict) skips such a link, a      *)
(* strict one fails (err).                                                 *)
(*   sel: [kind |-> "all"] | [kind |-> "depth", d |-> n]   (n node levels) *)
(*      | [kind |-> "path", p |-> <<k1, k2, ..>>]  a field path: from a    *)
(*        node at level i only its k(i+1)-th link is followed; the node    *)
(*        at the end of the path is matched and nothing below it loaded    *)
(*                                                                         *)
(* Loads(...) is the sequence of block loads; the CAR holds Out(loads) =   *)
(* first occurrences in order.  A two-pass writer counts in pass 1 and     *)
(* writes in pass 2: CountUnits charges every load, WriteUnits every first *)
(* occurrence -- SizeAgreement says they coincide.                         *)
(***************************************************************************)
EXTENDS Integers, Sequences, FiniteSets, TLC, SequencesExt, Json

CONSTANTS Nodes,        \* a sequence of node names, in link order (links go rightwards only)
          MaxKids, Options,
          Alias         \* BOOLEAN

VARIABLES kids, opt
vars == <<kids, opt>>

N == Len(Nodes)
AliasName == Nodes[N] \o "r"
After(i) == { Nodes[j] : j \in (i+1)..N } \cup (IF Alias /\ i < N THEN {AliasName} ELSE {})
KidSeqs(S, n) == UNION { [1..k -> S] : k \in 0..n }

KidsOf(i) == KidSeqs(After(i), IF i = 1 THEN MaxKids ELSE MaxKids - 1)
(* one existential per node (never build the set of all DAGs) *)
Init == /\ opt \in Options
        /\ \E k1 \in KidsOf(1), k2 \in KidsOf(2), k3 \in (IF N >= 3 THEN KidsOf(3) ELSE {<<>>}), k4 \in (IF N >= 4 THEN KidsOf(4) ELSE {<<>>}) :
              kids = [n \in { Nodes[i] : i \in 1..N } \cup (IF Alias THEN {AliasName} ELSE {}) |->
                        IF n = Nodes[1] THEN k1 ELSE IF n = Nodes[2] THEN k2 ELSE IF N >= 3 /\ n = Nodes[3] THEN k3
                        ELSE IF N >= 4 /\ n = Nodes[4] THEN k4 ELSE <<>>]
Next == UNCHANGED vars
Spec == Init /\ [][Next]_vars

Explores(sel, level) ==      \* are (some) links of a node at this level followed?
  \/ sel.kind = "all"
  \/ sel.kind = "depth" /\ level + 1 < sel.d
  \/ sel.kind = "path" /\ level < Len(sel.p)

(* state threaded through the walk: [loads, seen, budget, err] *)
RECURSIVE Walk(_, _, _, _, _, _)
RECURSIVE WalkKids(_, _, _, _, _, _, _)
Miss == IF "miss" \in DOMAIN opt THEN opt.miss ELSE {}
Strict == IF "strict" \in DOMAIN opt THEN opt.strict ELSE FALSE

Walk(K, n, level, sel, once, st) ==
  IF st.err \/ ~Explores(sel, level) THEN st
  ELSE IF sel.kind = "path"
    THEN LET k == sel.p[level + 1] IN
         IF k > Len(K[n]) THEN st                                    \* no such field: nothing to follow
         ELSE WalkKids(K, <<K[n][k]>>, 1, level, sel, once, st)
  ELSE WalkKids(K, K[n], 1, level, sel, once, st)

WalkKids(K, ks, i, level, sel, once, st) ==
  IF st.err \/ i > Len(ks) THEN st
  ELSE LET c == ks[i] IN
       IF once /\ c \in st.seen THEN WalkKids(K, ks, i + 1, level, sel, once, st)
       ELSE IF c \in Miss
         THEN IF Strict THEN [st EXCEPT !.err = TRUE]
              ELSE WalkKids(K, ks, i + 1, level, sel, once, [st EXCEPT !.seen = @ \cup {c}])    \* skipped: nothing loaded, nothing below it
       ELSE IF st.budget = 0 THEN [st EXCEPT !.err = TRUE]
       ELSE LET st1 == [loads |-> Append(st.loads, c), seen |-> st.seen \cup {c},
                        budget |-> IF st.budget < 0 THEN st.budget ELSE st.budget - 1, err |-> FALSE]
                st2 == Walk(K, c, level + 1, sel, once, st1)
            IN WalkKids(K, ks, i + 1, level, sel, once, st2)

Root == Nodes[1]
ResultFrom(K, o, r) == Walk(K, r, 0, o.sel, o.once, [loads |-> <<r>>, seen |-> {}, budget |-> o.budget, err |-> FALSE])
Dags(o) == IF "dags" \in DOMAIN o /\ o.dags = 2 THEN <<Nodes[1], Nodes[2]>> ELSE <<Root>>
Result(K, o) ==
  LET rs == [i \in 1..Len(Dags(o)) |-> ResultFrom(K, o, Dags(o)[i])] IN
  IF Len(rs) = 1 THEN rs[1]
  ELSE [loads |-> rs[1].loads \o rs[2].loads, seen |-> rs[1].seen \cup rs[2].seen, budget |-> o.budget,
        err |-> rs[1].err \/ rs[2].err]

RECURSIVE FirstOcc(_, _)
FirstOcc(acc, s) == IF s = <<>> THEN acc
                    ELSE IF \E i \in 1..Len(acc) : acc[i] = Head(s) THEN FirstOcc(acc, Tail(s))
                    ELSE FirstOcc(Append(acc, Head(s)), Tail(s))
Out(loads) == FirstOcc(<<>>, loads)

R == Result(kids, opt)
(* model-level properties *)
OutHasNoRepeats == \A i, j \in 1..Len(Out(R.loads)) : Out(R.loads)[i] = Out(R.loads)[j] => i = j
OnceMeansNoRepeatedLoads == (opt.once /\ Len(Dags(opt)) = 1) => \A i, j \in 2..Len(R.loads) : R.loads[i] = R.loads[j] => i = j
(* two-pass writers: counted units = written units  <=>  no load is repeated *)
SizeAgreement == ~R.err => Len(R.loads) = Len(Out(R.loads))
BudgetRespected == opt.budget >= 0 => Len(R.loads) - Len(Dags(opt)) <= opt.budget * Len(Dags(opt))

Emit == PrintT(ToJson([rec |-> "traversal", kids |-> kids, opt |-> opt, loads |-> R.loads, err |-> R.err, out |-> Out(R.loads),
                       dags |-> Dags(opt), alias |-> IF Alias THEN AliasName ELSE ""]))
=============================================================================
