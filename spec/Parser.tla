------------------------------- MODULE Parser -------------------------------
(***************************************************************************)
(* The section scanner shared by every parsing entry point (C09), at token *)
(* level, with the two size limits.                                        *)
(*                                                                         *)
(* Input: a sequence of tokens                                             *)
(*   [t |-> "len", v |-> n]     a length prefix announcing n bytes         *)
(*        n = -1 stands for an overflowing varint, n = -2 for a torn one    *)
(*   [t |-> "body", have |-> m] m bytes actually present after the prefix  *)
(* The scanner alternates: read a length prefix, check it against the      *)
(* limit BEFORE buffering, then consume the body.  First pair = header     *)
(* (limit MaxHeader), later pairs = sections (limit MaxSection).           *)
(*                                                                         *)
(* TLC checks on every token string up to the bound:                       *)
(*   Terminates      the scanner reaches "eof" or an error                 *)
(*   Progress        every step consumes at least one token                *)
(*   NoBigAlloc      the scanner never buffers more than the limit         *)
(*   ExactLimit      a declared length equal to the limit is accepted,     *)
(*                   limit + 1 is rejected with the too-large error        *)
(***************************************************************************)
EXTENDS Integers, Sequences, TLC, Json

CONSTANTS MaxHeader, MaxSection, Lens, MaxTokens, ZeroIsEOF

VARIABLES inp, pos, st, alloc, nsec
vars == <<inp, pos, st, alloc, nsec>>

LenTok(v) == [t |-> "len", v |-> v, have |-> 0]
BodyTok(m) == [t |-> "body", v |-> 0, have |-> m]
Overflow == -1
Torn == -2
Tokens == { LenTok(v) : v \in Lens \cup {Overflow, Torn} } \cup { BodyTok(m) : m \in Lens }

Init == /\ \E k \in 0..MaxTokens : inp \in [1..k -> Tokens]
        /\ pos = 1 /\ st = "hdr-len" /\ alloc = 0 /\ nsec = 0

Final == st \in {"eof", "err-unexpected-eof", "err-header-too-large", "err-section-too-large", "err-malformed"}
Limit == IF nsec = 0 THEN MaxHeader ELSE MaxSection
TooLarge == IF nsec = 0 THEN "err-header-too-large" ELSE "err-section-too-large"

ReadLen ==
  /\ st \in {"hdr-len", "sec-len"}
  /\ IF pos > Len(inp)
       THEN st' = (IF st = "hdr-len" THEN "err-unexpected-eof" ELSE "eof") /\ UNCHANGED <<pos, alloc, nsec>>
     ELSE LET tk == inp[pos] IN
       IF tk.t # "len" THEN st' = "err-malformed" /\ pos' = pos + 1 /\ UNCHANGED <<alloc, nsec>>
       ELSE IF tk.v = Torn THEN st' = "err-unexpected-eof" /\ pos' = pos + 1 /\ UNCHANGED <<alloc, nsec>>
       ELSE IF tk.v = Overflow THEN st' = "err-malformed" /\ pos' = pos + 1 /\ UNCHANGED <<alloc, nsec>>
       ELSE IF tk.v = 0 /\ st = "sec-len" /\ ZeroIsEOF THEN st' = "eof" /\ pos' = pos + 1 /\ UNCHANGED <<alloc, nsec>>
       ELSE IF tk.v > Limit THEN st' = TooLarge /\ pos' = pos + 1 /\ UNCHANGED <<alloc, nsec>>     \* rejected BEFORE allocating
       ELSE st' = "body" /\ pos' = pos + 1 /\ alloc' = tk.v /\ UNCHANGED nsec
  /\ UNCHANGED inp

ReadBody ==
  /\ st = "body"
  /\ LET want == alloc IN
     IF want = 0 THEN st' = (IF nsec = 0 THEN "err-malformed" ELSE "err-malformed") /\ UNCHANGED <<pos, nsec>>   \* empty header / zero-length section: no CID
     ELSE IF pos > Len(inp) \/ inp[pos].t # "body" \/ inp[pos].have < want
       THEN st' = "err-unexpected-eof" /\ pos' = (IF pos > Len(inp) THEN pos ELSE pos + 1) /\ UNCHANGED nsec
     ELSE st' = "sec-len" /\ pos' = pos + 1 /\ nsec' = nsec + 1
  /\ UNCHANGED <<inp, alloc>>

Next == ReadLen \/ ReadBody
Spec == Init /\ [][Next]_vars /\ WF_vars(Next)

Terminates == <>Final
Progress   == [][pos' > pos \/ Final']_vars
NoBigAlloc == alloc <= (IF nsec = 0 THEN MaxHeader ELSE IF MaxHeader > MaxSection THEN MaxHeader ELSE MaxSection)
FinalIsStable == [][Final => UNCHANGED vars]_vars

(* the limit matrix handed to the harness *)
Outcome(kind, limit, declared) == IF declared > limit THEN (IF kind = "header" THEN "err-header-too-large" ELSE "err-section-too-large") ELSE "accept"
Matrix == { [kind |-> k, delta |-> d, expect |-> Outcome(k, 100, 100 + d)] : k \in {"header", "section"}, d \in {-1, 0, 1} }
ExactLimit == /\ Outcome("header", MaxHeader, MaxHeader) = "accept" /\ Outcome("header", MaxHeader, MaxHeader + 1) = "err-header-too-large"
              /\ Outcome("section", MaxSection, MaxSection) = "accept" /\ Outcome("section", MaxSection, MaxSection + 1) = "err-section-too-large"
EmitMatrix == PrintT(ToJson([rec |-> "limits", matrix |-> Matrix]))
=============================================================================
