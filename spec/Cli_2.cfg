CONSTANTS
  RootLists <- CliRoots
  SecIds <- CliIds
  MaxLen = 2
  Conts <- CliConts
SPECIFICATION Spec
CHECK_DEADLOCK FALSE
INVARIANTS FilterSound ConcatLen DetachListSound
