-------------------------------- MODULE Tree --------------------------------
(***************************************************************************)
(* `car create` followed by `car extract` (C18), at the level of trees.    *)
(* A tree is a directory named "src" holding entries                       *)
(*   [k |-> "file", n, size]   size is a size CLASS (see harness)          *)
(*   [k |-> "link", n, to]     to is a target CLASS                        *)
(*   [k |-> "dir",  n, ch]     ch a sequence of file/link entries          *)
(*   [k |-> "manydir", n, to]  a directory with so many entries that the   *)
(*                             tool builds a HAMT-sharded directory; the   *)
(*                             specification treats it as one opaque      *)
(*                             entry (the harness knows its contents)      *)
(* cfg = [version, nowrap, stdin, spell, dest]; spell: how the source      *)
(* directory is named on the command line ("abs" | "dot" | "dirdot" |       *)
(* "hidden" | "slash": /abs/src/ with a trailing separator); dest: the output directory is "fresh" (empty), reached        *)
(* through a symbolic "link", or "stale": it holds an earlier, longer        *)
(* version of every regular file (a second extraction over the first).      *)
(* Extracted does not depend on dest: the result is the tree all the same.  *)
(* Packed(t, wrap) is the root directory of the DAG the tool builds: with  *)
(* wrapping a directory holding one entry named like the source directory, *)
(* without it the source directory itself.  Extracted(t, wrap) is the set  *)
(* of (path, leaf) pairs extraction must produce below the output          *)
(* directory; RoundTrip says it is the original tree, re-rooted under the  *)
(* wrapper name when wrapping is on.                                       *)
(***************************************************************************)
EXTENDS Integers, Sequences, FiniteSets, TLC, Json

CONSTANTS Leaves,       \* leaf entries (files, links)
          TopOnly,      \* entries that only occur at the top level (the sharded directory)
          DirNames, MaxTop, MaxChild, Configs

VARIABLES t, cfg
vars == <<t, cfg>>

Dir(nm, ch) == [k |-> "dir", n |-> nm, ch |-> ch]
DistinctNames(s) == \A i, j \in 1..Len(s) : s[i].n = s[j].n => i = j
LeafSeqs(n) == { s \in UNION { [1..k -> Leaves] : k \in 0..n } : DistinctNames(s) }

Init == /\ cfg \in Configs
        /\ \E k \in 0..MaxTop : \E top \in [1..k -> Leaves \cup TopOnly \cup { Dir(nm, ch) : nm \in DirNames, ch \in LeafSeqs(MaxChild) }] :
              DistinctNames(top) /\ t = top
Next == UNCHANGED vars
Spec == Init /\ [][Next]_vars

(* paths of a tree rooted at prefix p *)
RECURSIVE Paths(_, _)
Paths(p, es) ==
  UNION { IF es[i].k = "dir"
            THEN {[path |-> Append(p, es[i].n), k |-> "dir"]} \cup Paths(Append(p, es[i].n), es[i].ch)
            ELSE {[path |-> Append(p, es[i].n), k |-> es[i].k, v |-> IF es[i].k = "file" THEN es[i].size ELSE es[i].to]}
          : i \in 1..Len(es) }

Original == Paths(<<>>, t)
(* The wrapper entry is named like the last element of the source path AS SPELLED on the command
   line: "src" for /abs/path/src, but "." for `car create .` (run inside the tree) and for `src/.`;
   an entry named "." extracts onto the output directory itself. *)
Wrapped == ~cfg.nowrap /\ cfg.spell \in {"abs", "hidden", "slash"}      \* "slash": the name is still the last path element
WrapName == IF cfg.spell = "hidden" THEN ".src" ELSE "src"        \* "hidden": the source directory is /abs/.src
Extracted == IF Wrapped THEN {[path |-> <<WrapName>>, k |-> "dir"]} \cup Paths(<<WrapName>>, t) ELSE Paths(<<>>, t)
Strip(S) == { IF Len(x.path) > 0 /\ x.path[1] = WrapName /\ Wrapped THEN [x EXCEPT !.path = Tail(@)] ELSE x : x \in S }
RoundTrip == { x \in Strip(Extracted) : x.path # <<>> } = Original

Emit == PrintT(ToJson([rec |-> "tree", tree |-> t, cfg |-> cfg, expected |-> Extracted]))
=============================================================================
