CONSTANTS
  OptSet <- ResXOpts
  RootSets <- ResXRoots
  PutIds <- ResXPutIds
  ManyArgs <- ResMany
  ProbeIds <- ResXProbes
  MaxSecs = 3
SPECIFICATION Spec
INVARIANTS TypeOK NoDupKeys NoIdent NoOversize PutVisible FinOnlyV2 LayoutOK
PROPERTIES AppendOnly ClosedFrozen Typestate RoNoWrites OptsFixed
CHECK_DEADLOCK FALSE
