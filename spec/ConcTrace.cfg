SPECIFICATION Spec
INVARIANTS Stuck Done
CHECK_DEADLOCK FALSE
