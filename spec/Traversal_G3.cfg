CONSTANTS
  Nodes <- Nodes3
  MaxKids = 3
  Options <- GOpts
SPECIFICATION Spec
CHECK_DEADLOCK FALSE
INVARIANTS OutHasNoRepeats OnceMeansNoRepeatedLoads BudgetRespected
