CONSTANTS
  Leaves <- QLeaves
  TopOnly <- QTopOnly
  DirNames <- QDirNames
  MaxTop = 2
  MaxChild = 1
  Configs <- QConfigs
SPECIFICATION Spec
CHECK_DEADLOCK FALSE
INVARIANT Emit
