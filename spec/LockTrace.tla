----------------------------- MODULE LockTrace -----------------------------
(***************************************************************************)
(* I-layer lock discipline validated on traces of REAL executions (the     *)
(* repository's own tests built with -tags verif, and the harness's        *)
(* drivers).  Events, in the order of a process-wide sequence number:      *)
(*   [obj, k ("W"|"R"), p ("locked"|"unlocking"), g]                       *)
(* "locked" is emitted after the lock is acquired, "unlocking" before it   *)
(* is released, so in any execution that honours the discipline of         *)
(* Conc.tla the sequence satisfies: a write holder excludes everybody, a   *)
(* read holder excludes writers.                                           *)
(***************************************************************************)
EXTENDS Integers, Sequences, FiniteSets, TLC, Json, IOUtils

Trace == ndJsonDeserialize(IOEnv.VERIF_LOCKS)

VARIABLES l, w, r
vars == <<l, w, r>>
E == Trace[l]
Init == l = 1 /\ w = [o \in {} |-> 0] /\ r = [o \in {} |-> 0]
W(o) == IF o \in DOMAIN w THEN w[o] ELSE 0
R(o) == IF o \in DOMAIN r THEN r[o] ELSE 0
SetF(f, o, v) == [x \in DOMAIN f \cup {o} |-> IF x = o THEN v ELSE f[x]]

Ok == IF E.p = "locked"
        THEN IF E.k = "W" THEN W(E.obj) = 0 /\ R(E.obj) = 0 ELSE W(E.obj) = 0
        ELSE IF E.k = "W" THEN W(E.obj) = E.g ELSE R(E.obj) > 0

Step == /\ l <= Len(Trace)
        /\ (IF Ok THEN TRUE ELSE PrintT(<<"REJECT", l>>))
        /\ IF E.p = "locked"
             THEN IF E.k = "W" THEN w' = SetF(w, E.obj, E.g) /\ UNCHANGED r
                  ELSE r' = SetF(r, E.obj, R(E.obj) + 1) /\ UNCHANGED w
             ELSE IF E.k = "W" THEN w' = SetF(w, E.obj, 0) /\ UNCHANGED r
                  ELSE r' = SetF(r, E.obj, IF R(E.obj) > 0 THEN R(E.obj) - 1 ELSE 0) /\ UNCHANGED w
        /\ l' = l + 1
Spec == Init /\ [][Step]_vars
Done == l > Len(Trace) => PrintT(<<"VALIDATED", Len(Trace)>>)
=============================================================================
