----------------------------- MODULE MCDeferred -----------------------------
EXTENDS Deferred
K(t, v, i, du) == [target |-> t, v1 |-> v, ident |-> i, dup |-> du, whole |-> FALSE, pre |-> FALSE]
P(c) == [c EXCEPT !.pre = TRUE]
DCfgs == { K("path", FALSE, FALSE, FALSE), K("path", TRUE, FALSE, FALSE), K("stream", TRUE, FALSE, FALSE),
           K("path", FALSE, TRUE, FALSE), K("stream", TRUE, TRUE, TRUE),
           P(K("path", FALSE, FALSE, FALSE)), P(K("path", TRUE, FALSE, TRUE)),       \* the path holds a longer file already
           K("stream", FALSE, FALSE, FALSE),                                          \* explicit WriteAsCarV1(false) on a stream
           K("wstream", FALSE, FALSE, FALSE) }    \* ... on a stream that can also be written at an offset (an *os.File): a CARv2, finalized by Close
DRoots == <<"b1">>
=============================================================================
