----------------------------- MODULE MCDeferred -----------------------------
EXTENDS Deferred
K(t, v, i, du) == [target |-> t, v1 |-> v, ident |-> i, dup |-> du, whole |-> FALSE]
DCfgs == { K("path", FALSE, FALSE, FALSE), K("path", TRUE, FALSE, FALSE), K("stream", TRUE, FALSE, FALSE),
           K("path", FALSE, TRUE, FALSE), K("stream", TRUE, TRUE, TRUE) }
DRoots == <<"b1">>
=============================================================================
