CONSTANTS
  OptSet <- ResOptsT
  RootSets <- ResRoots
  PutIds <- ResPutIds
  ManyArgs <- ResMany
  ProbeIds <- ResProbes
  MaxSecs = 4
SPECIFICATION Spec
INVARIANT Emit
CHECK_DEADLOCK FALSE
