CONSTANTS
  Nodes <- Nodes3
  MaxKids = 3
  Alias = FALSE
  Options <- Opts
SPECIFICATION Spec
CHECK_DEADLOCK FALSE
INVARIANT SizeAgreement
