CONSTANTS
  Recs <- RecSet
  Dig <- DigTab
  MaxLoad = 3
SPECIFICATION Spec
CHECK_DEADLOCK FALSE
INVARIANT Emit
