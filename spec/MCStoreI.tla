------------------------------ MODULE MCStoreI ------------------------------
EXTENDS StoreI
MkOpt(w, d, i, v) == [whole |-> w, dup |-> d, ident |-> i, v1 |-> v, maxcid |-> 64, maxsec |-> 0, dpad |-> 0, ipad |-> 0, codec |-> "mh"]
IOpts == { MkOpt(w, d, i, v) : w \in BOOLEAN, d \in BOOLEAN, i \in BOOLEAN, v \in BOOLEAN }
IRoots == { <<"b1">> }
IPuts == {"b1", "b2", "b3", "b5", "b7", "b8", "b11"}
IProbes == {"b1", "b2", "b3", "b5", "b7", "b20"}
=============================================================================
