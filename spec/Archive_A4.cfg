CONSTANTS
  RootLists <- StdRoots
  SecIds <- IdsA
  MaxLen = 4
  Conts <- StdConts
  Probes <- ProbesStd
SPECIFICATION Spec
CHECK_DEADLOCK FALSE
INVARIANTS ScanMatchesIndex OffsetsInsidePayload MhRefinesDigest StatsCount
