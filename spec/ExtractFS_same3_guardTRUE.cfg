CONSTANTS
  Entries <- SEntries
  DirNames <- SDirNames
  MaxTop = 3
  MaxChild = 1
  PreStates <- SPre
  GuardFinal = TRUE
  FileRoots = FALSE
SPECIFICATION Spec
CHECK_DEADLOCK FALSE
INVARIANT Contained
