---------------------------- MODULE MCTraversal ----------------------------
EXTENDS Traversal
S(k, d, p) == [kind |-> k, d |-> d, p |-> p]
Sels == { S("all", 0, <<>>), S("depth", 1, <<>>), S("depth", 2, <<>>), S("depth", 3, <<>>),
          S("path", 0, <<1>>), S("path", 0, <<2>>), S("path", 0, <<1, 1>>), S("path", 0, <<2, 1>>) }
Opts == { [sel |-> s, once |-> o, budget |-> b] : s \in Sels, o \in BOOLEAN, b \in {-1, 1, 3} }
(* car get-dag: no link budget; incomplete stores, lenient and strict *)
GSels == { S("all", 0, <<>>), S("depth", 2, <<>>), S("depth", 3, <<>>), S("path", 0, <<1>>), S("path", 0, <<2, 1>>) }
GOpts == { [sel |-> s, once |-> o, budget |-> -1, miss |-> m, strict |-> st] :
              s \in GSels, o \in BOOLEAN, m \in { {}, {"n3"}, {"n2", "n4"} }, st \in BOOLEAN }
(* two (root, selector) pairs -- root module only *)
DOpts == { [sel |-> s, once |-> o, budget |-> b, dags |-> 2] : s \in {S("all", 0, <<>>), S("depth", 2, <<>>)}, o \in BOOLEAN, b \in {-1, 2} }
(* one block under two codecs *)
AOpts == { [sel |-> s, once |-> o, budget |-> -1] : s \in {S("all", 0, <<>>), S("depth", 2, <<>>), S("path", 0, <<1>>)}, o \in BOOLEAN }
Nodes4 == <<"n1", "n2", "n3", "n4">>
Nodes3 == <<"n1", "n2", "n3">>
=============================================================================
