---------------------------- MODULE MCTraversal ----------------------------
EXTENDS Traversal
Sels == { [kind |-> "all", d |-> 0], [kind |-> "depth", d |-> 1], [kind |-> "depth", d |-> 2], [kind |-> "depth", d |-> 3] }
Opts == { [sel |-> s, once |-> o, budget |-> b] : s \in Sels, o \in BOOLEAN, b \in {-1, 1, 3} }
Nodes4 == <<"n1", "n2", "n3", "n4">>
Nodes3 == <<"n1", "n2", "n3">>
=============================================================================
