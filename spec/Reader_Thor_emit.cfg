CONSTANTS
  RootLists <- QuickRoots
  SecIds <- ThorIds
  MaxLen = 3
  Conts <- StdConts
SPECIFICATION Spec
CHECK_DEADLOCK FALSE
INVARIANT Emit
