CONSTANTS
  Entries <- TEntries
  DirNames <- QDirNames
  MaxTop = 3
  MaxChild = 1
  PreStates <- QPre
  GuardFinal = TRUE
  FileRoots = FALSE
  MatchPaths <- NoMatch
SPECIFICATION Spec
CHECK_DEADLOCK FALSE
INVARIANT Emit
