CONSTANTS
  RootLists <- FRoots
  SecIds <- FIds
  MaxLen = 4
  Conts <- FConts
SPECIFICATION Spec
CHECK_DEADLOCK FALSE
INVARIANTS FilterSound ConcatLen DetachListSound
