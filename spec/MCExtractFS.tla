---------------------------- MODULE MCExtractFS ----------------------------
EXTENDS ExtractFS
T(a, s) == [abs |-> a, segs |-> s]
F(n) == [k |-> "file", n |-> n, to |-> T(FALSE, <<>>)]
L(n, t) == [k |-> "link", n |-> n, to |-> t]
Targets == { T(FALSE, <<"..", "sent">>), T(TRUE, <<"w", "sent">>), T(FALSE, <<"..", "sdir">>), T(FALSE, <<"b">>), T(TRUE, <<"w", "new">>),
             T(FALSE, <<"..", "..", "sdir", "new">>), T(FALSE, <<"..", "out2">>), T(FALSE, <<"..">>) }
Names   == { <<"a">>, <<"b">>, <<"..", "a">>, <<"a", "b">>, <<"..">> }
QEntries == { F(n) : n \in Names } \cup { L(n, t) : n \in { <<"a">>, <<"b">>, <<"..", "a">> }, t \in Targets }
QDirNames == { <<"a">>, <<"b">> }
(* three entries of one name, among them entries whose block is missing from the archive *)
M(n) == [k |-> "missing", n |-> n, to |-> T(FALSE, <<>>)]
SEntries == { F(<<"a">>), F(<<"b">>), M(<<"b">>), L(<<"a">>, T(FALSE, <<"..", "sdir">>)), L(<<"a">>, T(FALSE, <<"..">>)) }
SDirNames == { <<"a">> }
(* directory entries whose names reach one and two levels below what may be a symlink *)
DEntries == { F(<<"a">>), F(<<"b">>), L(<<"a">>, T(FALSE, <<"..", "sdir">>)), L(<<"a">>, T(FALSE, <<"..">>)), L(<<"a">>, T(TRUE, <<"w", "new">>)) }
DDirNames == { <<"a">>, <<"a", "x">>, <<"a", "x", "y">> }
(* thorough tier: three top-level entries over a reduced alphabet (full alphabet cubed is 8 M CLI runs) *)
TTargets == { T(FALSE, <<"..", "sent">>), T(TRUE, <<"w", "sent">>), T(FALSE, <<"..", "sdir">>), T(FALSE, <<"b">>), T(FALSE, <<"..">>) }
TEntries == { F(n) : n \in { <<"a">>, <<"b">>, <<"..", "a">>, <<"a", "b">> } } \cup { L(n, t) : n \in { <<"a">>, <<"b">> }, t \in TTargets }
(* names that resolve to the output directory itself, and names one suffix away from another entry's (a temporary
   name an implementation may derive, "a.part") *)
ZEntries == { F(<<"a">>), F(<<"b">>), L(<<"..">>, T(FALSE, <<"..", "sdir">>)), L(<<".">>, T(FALSE, <<"..", "sdir">>)),
              L(<<"..">>, T(FALSE, <<"sdir">>)),       \* seen from the output directory's own place this names the sentinel directory
              L(<<"a.part">>, T(FALSE, <<"..", "sent">>)), L(<<"a.part">>, T(TRUE, <<"w", "new">>)), L(<<"a.tmp">>, T(FALSE, <<"..", "sent">>)) }
ZDirNames == { <<"a">> }
NoPre  == [p \in {} |-> [t |-> "dir"]]
PreLink == (<<"a">> :> [t |-> "link", to |-> T(FALSE, <<"..", "sent">>)])
PreDirLink == (<<"a">> :> [t |-> "link", to |-> T(FALSE, <<"..", "sdir">>)])
PreDir == (<<"a">> :> [t |-> "dir"])
QPre == { NoPre, PreLink, PreDirLink, PreDir }
SPre == { NoPre }
ZPre == { NoPre, (<<"a.part">> :> [t |-> "link", to |-> T(FALSE, <<"..", "sent">>)]) }
NoMatch == { <<>> }
(* --path: the looked-up names meet pre-existing links and directories and entries whose block is missing *)
PMatch == { <<"a">>, <<"a", "b">>, <<"b">>, <<"a", "f">> }
PEntries == { F(<<"a">>), F(<<"b">>), M(<<"b">>), M(<<"a">>), L(<<"a">>, T(FALSE, <<"..", "sdir">>)), L(<<"b">>, T(FALSE, <<"..", "sent">>)) }
PDirNames == { <<"a">>, <<"b">> }
(* file roots: the fixed name "unknown" meets links, files and directories of that name *)
UEntries == { F(<<"unknown">>), F(<<"a">>) } \cup { L(<<"unknown">>, t) : t \in Targets }
UDirNames == { <<"unknown">>, <<"a">> }
PreU(t) == (<<"unknown">> :> [t |-> "link", to |-> t])
UPre == { NoPre, PreU(T(FALSE, <<"..", "sent">>)), PreU(T(TRUE, <<"w", "new">>)), PreU(T(FALSE, <<"..", "sdir">>)),
          (<<"unknown">> :> [t |-> "dir"]), (<<"unknown">> :> [t |-> "file", c |-> "OLD"]) }
=============================================================================
