----------------------------- MODULE ArchiveOps -----------------------------
(***************************************************************************)
(* Operators over abstract archives, shared by the reader-side families    *)
(* (C01 read side, C02, C03, C07, C10, C13, C14).                          *)
(*                                                                         *)
(* An archive is a record                                                  *)
(*   [roots, secs, ver, dpad, ipad, idx, full, npad]                       *)
(* ver  : 1 (bare CARv1) or 2 (CARv2 container)                            *)
(* idx  : "none" | "sorted" | "mh"   embedded index kind (ver = 2 only)    *)
(* full : the fully-indexed characteristic (identity CIDs are in the index)*)
(* npad : number of zero bytes appended after the last section inside the  *)
(*        payload ("null padding", readable with ZeroLengthSectionAsEOF)   *)
(* hx   : (optional field, default 0) extra bytes of a NON-CANONICAL but   *)
(*        accepted header encoding -- hx = 1: the version is written as    *)
(*        the two-byte integer 0x18 0x01.  Every section sits hx bytes     *)
(*        later than a re-encoding of the decoded header would suggest.    *)
(***************************************************************************)
EXTENDS CarBase

Hx(a)    == IF "hx" \in DOMAIN a THEN a.hx ELSE 0
HLen(a)  == LET B == HeaderBodyLen(a.roots) + Hx(a) IN VarintLen(B) + B      \* the header as it is on disk
Shift(a) == HLen(a) - HeaderLen(a.roots)
SectionsLen(a) == PayloadLen(a.roots, a.secs) + Shift(a)
PayLen(a)      == SectionsLen(a) + a.npad
DataBase(a)    == IF a.ver = 1 THEN 0 ELSE DataOffsetOf(a.dpad)
IdxOff(a)      == IF a.ver = 2 /\ a.idx # "none" THEN IndexOffsetOf(a.dpad, a.ipad, PayLen(a)) ELSE 0

(* What a front-to-back scan of the payload yields *)
Scan(a) ==
  [i \in 1..Len(a.secs) |->
     [b    |-> a.secs[i],
      off  |-> Shift(a) + SecOffset(a.roots, a.secs, i),                 \* payload-relative offset of the length prefix
      src  |-> DataBase(a) + Shift(a) + SecOffset(a.roots, a.secs, i),    \* offset in the source file/stream
      doff |-> Shift(a) + SecDataOffset(a.roots, a.secs, i),
      size |-> Blk[a.secs[i]].len]]

(* The records of the embedded index *)
(* index records / offsets of an archive, with the header as it is on disk *)
IndexRecsA(a, storeIdent) ==
  LET rs == IndexRecs(a.roots, a.secs, storeIdent) IN [i \in 1..Len(rs) |-> [rs[i] EXCEPT !.off = @ + Shift(a)]]
IndexOffsetsA(a, storeIdent, mhPrecise, q) == { o + Shift(a) : o \in IndexOffsets(a.roots, a.secs, storeIdent, mhPrecise, q) }
(* xid (optional field): the embedded index lists identity CIDs although the header does not carry the
   fully-indexed characteristic -- what WrapV1 writes when it is given StoreIdentityCIDs *)
Xid(a) == IF "xid" \in DOMAIN a THEN a.xid ELSE FALSE
EmbeddedRecs(a) == IndexRecsA(a, a.full \/ Xid(a))

---------------------------------------------------------------------------
(* C13: statistics of a full scan *)
SeqMin(s) == CHOOSE x \in Range(s) : \A y \in Range(s) : x <= y
SeqMax(s) == CHOOSE x \in Range(s) : \A y \in Range(s) : x >= y
CountIf(s, P(_)) == Cardinality({i \in 1..Len(s) : P(s[i])})

Stats(a) ==
  LET n    == Len(a.secs)
      clen == [i \in 1..n |-> Blk[a.secs[i]].clen]
      dlen == [i \in 1..n |-> Blk[a.secs[i]].len]
      (* a root position is "present" when some section carries exactly that CID *)
      rootsPresent == \A r \in 1..Len(a.roots) : \E i \in 1..n : SameCid(a.secs[i], a.roots[r])
      codecs == { Blk[a.secs[i]].codec : i \in 1..n }
      hashes == { Blk[a.secs[i]].hcode : i \in 1..n }
  IN [version |-> a.ver,
      roots |-> a.roots,
      rootsPresent |-> rootsPresent,
      count |-> n,
      minCid |-> IF n = 0 THEN 0 ELSE SeqMin(clen),
      maxCid |-> IF n = 0 THEN 0 ELSE SeqMax(clen),
      avgCid |-> IF n = 0 THEN 0 ELSE SumSeq(clen) \div n,
      minBlk |-> IF n = 0 THEN 0 ELSE SeqMin(dlen),
      maxBlk |-> IF n = 0 THEN 0 ELSE SeqMax(dlen),
      avgBlk |-> IF n = 0 THEN 0 ELSE SumSeq(dlen) \div n,
      codecs |-> [c \in codecs |-> CountIf(a.secs, LAMBDA b : Blk[b].codec = c)],
      hashes |-> [h \in hashes |-> CountIf(a.secs, LAMBDA b : Blk[b].hcode = h)],
      dataOff |-> IF a.ver = 2 THEN DataBase(a) ELSE 0,
      dataSize |-> IF a.ver = 2 THEN PayLen(a) ELSE 0,
      idxOff |-> IdxOff(a),
      idxCodec |-> IF a.ver = 2 THEN a.idx ELSE "none"]

---------------------------------------------------------------------------
(* C07: read-only random access as a function of the scan.
   o = [whole, ident] ; the index the store works with is given by ixIdent: whether identity
   CIDs were indexed.  *)
RoCarries(whole, a, q) == \E i \in 1..Len(a.secs) : StoreKey(whole, a.secs[i]) = StoreKey(whole, q)
RoData(whole, a, q)    == { Blk[a.secs[i]].data : i \in { j \in 1..Len(a.secs) : StoreKey(whole, a.secs[j]) = StoreKey(whole, q) } }

(* Indexed(a, ixIdent, q): the section set reachable through the index for q *)
RoHas(o, ixIdent, a, q) ==
  IF IsIdent(q) /\ ~o.ident THEN {"true"}
  ELSE IF IsIdent(q) /\ ~ixIdent
         \* identity sections exist in the payload but the index in use does not list them:
         \* the property speaks of "a key is present iff some section carries it"; an index built
         \* without identity entries cannot see them -- both answers are admitted for this corner.
         THEN IF RoCarries(o.whole, a, q) THEN {"true", "false"} ELSE {"false"}
  ELSE IF RoCarries(o.whole, a, q) THEN {"true"} ELSE {"false"}

RoGet(o, ixIdent, a, q) ==
  IF IsIdent(q) /\ ~o.ident THEN {Blk[q].data}
  ELSE IF IsIdent(q) /\ ~ixIdent
         THEN IF RoCarries(o.whole, a, q) THEN RoData(o.whole, a, q) \cup {"notfound"} ELSE {"notfound"}
  ELSE IF RoCarries(o.whole, a, q) THEN RoData(o.whole, a, q) ELSE {"notfound"}

=============================================================================
