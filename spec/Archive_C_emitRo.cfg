CONSTANTS
  RootLists <- StdRoots
  SecIds <- IdsC
  MaxLen = 3
  Conts <- SmallConts
  Probes <- ProbesStd
SPECIFICATION Spec
CHECK_DEADLOCK FALSE
INVARIANT EmitRo
