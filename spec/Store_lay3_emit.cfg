CONSTANTS
  OptSet <- LayOpts
  RootSets <- LayRoots
  PutIds <- LayPutIds
  ManyArgs <- LayMany
  ProbeIds <- LayProbes
  MaxSecs = 3
SPECIFICATION Spec
INVARIANT Emit
CHECK_DEADLOCK FALSE
