------------------------------ MODULE ExtractFS ------------------------------
(***************************************************************************)
(* `car extract` against a model of the file system (C17).                 *)
(*                                                                         *)
(* World:  /w            sandbox parent                                    *)
(*         /w/out        the output directory given by the user            *)
(*         /w/sent       a sentinel file outside it                        *)
(*         /w/sdir, /w/sdir/f   a sentinel directory and file outside it   *)
(*         /w/out2       a sibling directory with the output dir's prefix  *)
(* fs maps an absolute path (sequence of names) to a node                  *)
(*   [t |-> "dir"] | [t |-> "file", c |-> content] | [t |-> "link", to |-> target]*)
(* target = [abs, segs]; segs may contain "..".                            *)
(*                                                                         *)
(* The extractor is modelled step by step as in cmd/car/lib/extract.go:    *)
(* resolvePath (lexical join clamped under the root, then the PARENT must  *)
(* resolve to itself through EvalSymlinks), MkdirAll, os.Create (which     *)
(* FOLLOWS a symlink in the final component), os.Symlink (which does not). *)
(* GuardFinal = TRUE models a check that refuses to create a file over an  *)
(* existing symlink.  TLC explores every archive of the bounded alphabet;  *)
(* invariant Contained says nothing outside /w/out is created or changed.  *)
(***************************************************************************)
EXTENDS Integers, Sequences, FiniteSets, TLC, SequencesExt, Json

CONSTANTS Entries,      \* leaf entry alphabet: set of [k, n, to]  (k \in {"file","link","missing"}; n: name as segment sequence)
          DirNames,     \* names usable for directory entries
          MaxTop,       \* entries at the top level
          MaxChild,     \* entries inside a directory entry
          PreStates,    \* pre-populated contents of /w/out: set of functions relative-path -> node
          GuardFinal,   \* BOOLEAN
          FileRoots,    \* BOOLEAN: top-level items may also be bare FILE ROOTS of the archive
          MatchPaths    \* set of `--path` arguments (sequences of names); <<>> = extract everything

VARIABLES fs, todo, aborted, arch, pre, mp
vars == <<fs, todo, aborted, arch, pre, mp>>

Out == <<"w", "out">>
Base == (<<"w">> :> [t |-> "dir"]) @@ (Out :> [t |-> "dir"]) @@ (<<"w", "sent">> :> [t |-> "file", c |-> "SENTINEL"])
        @@ (<<"w", "sdir">> :> [t |-> "dir"]) @@ (<<"w", "sdir", "f">> :> [t |-> "file", c |-> "SENTINEL2"])
        @@ (<<"w", "out2">> :> [t |-> "dir"])      \* a sibling whose name starts with the output directory's name

IsUnder(p, r) == Len(p) >= Len(r) /\ SubSeq(p, 1, Len(r)) = r

(* lexical cleaning of a segment list below a clamp root (path.Join + filepath.Rel("/")) *)
RECURSIVE Clean(_, _)
Clean(acc, segs) ==
  IF segs = <<>> THEN acc
  ELSE LET h == Head(segs) IN
       IF h = "." THEN Clean(acc, Tail(segs))
       ELSE IF h = ".." THEN Clean(IF acc = <<>> THEN <<>> ELSE Front(acc), Tail(segs))
       ELSE Clean(Append(acc, h), Tail(segs))

Err(e) == <<"!" \o e>>
IsErr(p) == p # <<>> /\ Len(p) = 1 /\ p[1] \in {"!missing", "!notdir", "!loop"}

(* POSIX path walk over f. followLast: resolve a symlink in the final component too.
   A missing FINAL component yields the path itself (caller decides); a missing inner one is an error. *)
RECURSIVE Walk(_, _, _, _, _)
Walk(f, cur, rest, followLast, fuel) ==
  IF fuel = 0 THEN Err("loop")
  ELSE IF rest = <<>> THEN cur
  ELSE LET h == Head(rest) t == Tail(rest) IN
       IF h = "." THEN Walk(f, cur, t, followLast, fuel)
       ELSE IF h = ".." THEN Walk(f, IF cur = <<>> THEN <<>> ELSE Front(cur), t, followLast, fuel)
       ELSE LET nxt == Append(cur, h) IN
            IF nxt \notin DOMAIN f THEN (IF t = <<>> THEN nxt ELSE Err("missing"))
            ELSE IF f[nxt].t = "link" /\ (t # <<>> \/ followLast)
                   THEN Walk(f, IF f[nxt].to.abs THEN <<>> ELSE cur, f[nxt].to.segs \o t, followLast, fuel - 1)
            ELSE IF t # <<>> /\ f[nxt].t # "dir" THEN Err("notdir")
            ELSE Walk(f, nxt, t, followLast, fuel)

Resolve(f, p, followLast) == Walk(f, <<>>, p, followLast, 6)
Exists(f, p) == p \in DOMAIN f

(* filepath.EvalSymlinks: every component must exist *)
EvalSymlinks(f, p) == LET r == Resolve(f, p, TRUE) IN IF IsErr(r) \/ r \notin DOMAIN f THEN Err("missing") ELSE r

(* resolvePath(root = Out, d ++ name): the joined path, or an error when the parent redirects *)
ResolvePath(f, rel) ==
  LET joined == Out \o Clean(<<>>, rel)
      parent == Front(joined) IN
  IF EvalSymlinks(f, parent) # parent THEN Err("missing") ELSE joined

---------------------------------------------------------------------------
(* effects; each returns [ok, fs] *)
MkdirAll(f, p) ==
  IF p \in DOMAIN f
    THEN IF f[p].t = "dir" THEN [ok |-> TRUE, fs |-> f]
         ELSE IF f[p].t = "link"
           THEN LET r == Resolve(f, p, TRUE) IN
                IF ~IsErr(r) /\ r \in DOMAIN f /\ f[r].t = "dir" THEN [ok |-> TRUE, fs |-> f] ELSE [ok |-> FALSE, fs |-> f]
         ELSE [ok |-> FALSE, fs |-> f]
    \* the parent exists (resolvePath checked it) but may be a file: ENOTDIR
    ELSE IF Front(p) \in DOMAIN f /\ f[Front(p)].t = "dir" THEN [ok |-> TRUE, fs |-> f @@ (p :> [t |-> "dir"])]
    ELSE [ok |-> FALSE, fs |-> f]

Create(f, p, content) ==
  IF GuardFinal /\ p \in DOMAIN f /\ f[p].t = "link" THEN [ok |-> FALSE, fs |-> f]
  ELSE LET r == Resolve(f, p, TRUE) IN              \* O_CREAT|O_TRUNC follows a symlink in the final component
       IF IsErr(r) THEN [ok |-> FALSE, fs |-> f]
       ELSE IF r \in DOMAIN f
              THEN IF f[r].t = "file" THEN [ok |-> TRUE, fs |-> [f EXCEPT ![r] = [t |-> "file", c |-> content]]]
                   ELSE [ok |-> FALSE, fs |-> f]                                  \* a directory: EISDIR
       ELSE IF r # <<>> /\ Front(r) \in DOMAIN f /\ f[Front(r)].t = "dir"
              THEN [ok |-> TRUE, fs |-> f @@ (r :> [t |-> "file", c |-> content])]
       ELSE [ok |-> FALSE, fs |-> f]

Symlink(f, p, to) ==
  IF p \in DOMAIN f THEN [ok |-> FALSE, fs |-> f]                                  \* EEXIST, never follows
  ELSE [ok |-> TRUE, fs |-> f @@ (p :> [t |-> "link", to |-> to])]

---------------------------------------------------------------------------
LeafSeqs(n) == UNION { [1..k -> Entries] : k \in 0..n }
DirEntry(nm, ch) == [k |-> "dir", n |-> nm, ch |-> ch]
(* A root of the archive that is a file, not a directory: ExtractToDir writes it to <out>/unknown
   with extractFile directly -- the name does not pass through resolvePath.  In `arch` the items
   between two file roots are the entries of one directory root. *)
FRoot == [k |-> "froot", n |-> <<"unknown">>, to |-> [abs |-> FALSE, segs |-> <<>>]]

(* `car extract --path a/b`: at each level only the FIRST entry of that name is looked up and extracted (a lookup
   that finds nothing is an error); below the end of the path everything is extracted.  An item of `todo`
   carries what is left of the path. *)
Pick(d, es, rem) ==
  IF rem = <<>> THEN [ok |-> TRUE, items |-> [i \in 1..Len(es) |-> [d |-> d, e |-> es[i], rem |-> <<>>]]]
  ELSE LET hits == { i \in 1..Len(es) : es[i].n = <<rem[1]>> } IN
       IF hits = {} THEN [ok |-> FALSE, items |-> <<>>]
       ELSE LET i == CHOOSE j \in hits : \A k \in hits : j <= k IN
            [ok |-> TRUE, items |-> << [d |-> d, e |-> es[i], rem |-> Tail(rem)] >>]

Init ==
  /\ mp \in MatchPaths
  /\ \E p0 \in PreStates : pre = p0
  /\ \E k \in 1..MaxTop : \E top \in [1..k -> Entries \cup { DirEntry(nm, ch) : nm \in DirNames, ch \in LeafSeqs(MaxChild) }
                                                     \cup (IF FileRoots THEN {FRoot} ELSE {})] : arch = top
  /\ fs = Base @@ [p \in { Out \o q : q \in DOMAIN pre } |-> pre[SubSeq(p, 3, Len(p))]]
  /\ todo = Pick(<<>>, arch, mp).items
  /\ aborted = ~Pick(<<>>, arch, mp).ok

Content(e) == "DATA"

Step ==
  /\ todo # <<>> /\ ~aborted
  /\ LET it == Head(todo) e == it.e rel == it.d \o e.n
         target == IF e.k = "froot" THEN Out \o e.n ELSE ResolvePath(fs, rel) IN
     IF IsErr(target)
       THEN aborted' = TRUE /\ UNCHANGED <<fs, todo>>
     ELSE IF e.k = "dir"
       THEN LET r == MkdirAll(fs, target) IN
            IF ~r.ok THEN aborted' = TRUE /\ UNCHANGED <<fs, todo>>
            ELSE LET pk == Pick(Clean(<<>>, rel), e.ch, it.rem) IN
                 /\ fs' = r.fs
                 /\ todo' = pk.items \o Tail(todo)
                 /\ aborted' = ~pk.ok
     ELSE IF e.k = "missing"
       \* the entry's block is not in the archive: reported and skipped, after its path was resolved
       THEN todo' = Tail(todo) /\ UNCHANGED <<fs, aborted>>
     ELSE LET r == IF e.k \in {"file", "froot"} THEN Create(fs, target, Content(e)) ELSE Symlink(fs, target, e.to) IN
          IF ~r.ok THEN aborted' = TRUE /\ UNCHANGED <<fs, todo>>
          ELSE fs' = r.fs /\ todo' = Tail(todo) /\ UNCHANGED aborted
  /\ UNCHANGED <<arch, pre, mp>>

Spec == Init /\ [][Step]_vars

Finished == todo = <<>> \/ aborted

(* C17 *)
Contained ==
  /\ \A p \in DOMAIN fs : ~IsUnder(p, Out) => (p \in DOMAIN Base /\ fs[p] = Base[p])
  /\ \A p \in DOMAIN Base : p \in DOMAIN fs

InsideTree == [p \in { q \in DOMAIN fs : IsUnder(q, Out) /\ q # Out } |-> fs[p]]
TreeJson == { [path |-> SubSeq(p, 3, Len(p)), node |-> fs[p]] : p \in { q \in DOMAIN fs : IsUnder(q, Out) /\ q # Out } }
Emit == Finished => PrintT(ToJson([rec |-> "extract", arch |-> arch, pre |-> { [path |-> q, node |-> pre[q]] : q \in DOMAIN pre },
                                   aborted |-> aborted, tree |-> TreeJson, contained |-> Contained, mp |-> mp]))
=============================================================================
