CONSTANTS
  RootLists <- TRoots
  SecIds <- TIds
  MaxLen = 2
  Conts <- TConts
  ReplRoots <- TRepl
  MaxOps = 3
SPECIFICATION Spec
CHECK_DEADLOCK FALSE
INVARIANT Emit
