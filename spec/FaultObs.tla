------------------------------ MODULE FaultObs ------------------------------
(***************************************************************************)
(* C16, code -> spec: one record per (session, failing write, bytes        *)
(* persisted by it, continuation).  FaultSafe is the statement of C16:     *)
(*   the call that met the fault returns an error, the failed block is not *)
(*   reported as stored, and if a later Finalize succeeds the archive is   *)
(*   well formed and holds exactly the blocks whose Put returned nil.      *)
(***************************************************************************)
EXTENDS Integers, Sequences, TLC, Json, IOUtils

Obs == ndJsonDeserialize(IOEnv.VERIF_OBS)

(* reopened: a Close that failed left the writer accepting further calls (deferred writer; C20's "after Close every call
   reports the store as closed" holds for a Close that returned an error, too) *)
FaultSafe(o) ==
  /\ o.errret
  /\ ~o.visible
  /\ o.finok => (o.well /\ o.exact)
  /\ ~o.reopened

VARIABLE i
Init == i = 1
Next == i <= Len(Obs) /\ i' = i + 1
Spec == Init /\ [][Next]_i
Check == i <= Len(Obs) => (FaultSafe(Obs[i]) \/ PrintT(<<"REJECT", i>>))
Done  == i > Len(Obs) => PrintT(<<"VALIDATED", Len(Obs)>>)
=============================================================================
