------------------------------- MODULE MCTree -------------------------------
EXTENDS Tree
F(n, s) == [k |-> "file", n |-> n, size |-> s]
L(n, to) == [k |-> "link", n |-> n, to |-> to]
QLeaves == { F("f0", "empty"), F("f1", "small"), F("f2", "small"),        \* f1 and f2 have IDENTICAL content
             F("uni", "small2"), F(".hid", "small2"),
             F("zt", "zerotail"),      \* zt: 256 KiB ending in 192 KiB of zeros
             F("long", "small"),       \* long: a name of 251 bytes (83 three-byte characters + 2)
             F("fpb", "dirbytes"),     \* fpb: a file whose bytes are the block of an empty directory
             F("chunk", "onechunk"), F("big", "multichunk"), F("zeros", "repeatchunk"),
             L("l1", "rel"), L("l2", "rel"), L("labs", "abs"), L("ldang", "dangling"), L("lweird", "unclean") }
QTopOnly == { [k |-> "manydir", n |-> "many", to |-> "entries"],     \* sharded (HAMT)
              [k |-> "manydir", n |-> "wide", to |-> "entries"] }     \* 5000 short names: the largest plain directory block, just below the sharding threshold
QDirNames == { "d", "sp ace", ".dd" }
QConfigs == { [version |-> v, nowrap |-> w, stdin |-> s, spell |-> "abs", dest |-> "fresh"] : v \in {1, 2}, w \in BOOLEAN, s \in BOOLEAN }
       \cup { [version |-> v, nowrap |-> w, stdin |-> FALSE, spell |-> sp, dest |-> "fresh"] : v \in {1, 2}, w \in BOOLEAN, sp \in {"dot", "dirdot", "hidden", "slash"} }
       \cup { [version |-> 2, nowrap |-> w, stdin |-> s, spell |-> "abs", dest |-> d] : w \in BOOLEAN, s \in BOOLEAN, d \in {"link", "stale"} }
=============================================================================
