------------------------------- MODULE Reader -------------------------------
(***************************************************************************)
(* The v2 BlockReader as a state machine (C14, read side of C01).          *)
(*                                                                         *)
(* I-layer shaped like block_reader.go: the reader keeps a running source  *)
(* offset `off` that both Next and SkipNext advance by                     *)
(*     varint width + CID length + data length,                           *)
(* SkipNext reports [Offset = off - base, SourceOffset = off, Size].       *)
(* TLC checks that this incremental bookkeeping equals the closed form     *)
(* given by ArchiveOps!Scan for every archive and every mix of the two     *)
(* calls, and that a CARv2 source is never consumed past the payload.      *)
(* The emitter prints every maximal behaviour (archive, choice string,     *)
(* per-step expected result) for replay on the real BlockReader.           *)
(***************************************************************************)
EXTENDS ArchiveOps, Json

CONSTANTS RootLists,    \* set of root lists
          SecIds,       \* block ids sections are drawn from
          MaxLen,       \* maximum number of sections
          Conts         \* set of container records [ver, dpad, ipad, idx, full, npad]

VARIABLES a, pos, off, consumed, hist, done
vars == <<a, pos, off, consumed, hist, done>>

Init ==
  /\ \E r \in RootLists, k \in 0..MaxLen, c \in Conts : \E s \in [1..k -> SecIds] :
        a = [roots |-> r, secs |-> s, ver |-> c.ver, dpad |-> c.dpad, ipad |-> c.ipad, idx |-> c.idx,
             full |-> c.full, npad |-> c.npad, hx |-> IF "hx" \in DOMAIN c THEN c.hx ELSE 0]
  /\ pos = 1
  /\ off = DataBase(a) + HLen(a)           \* the bytes the header occupies, not the size of its re-encoding
  /\ consumed = DataBase(a) + HLen(a)      \* bytes taken from the underlying source so far
  /\ hist = <<>>
  /\ done = FALSE

AtEnd == pos > Len(a.secs)

Advance ==
  LET b == a.secs[pos] IN
  /\ off' = off + VarintLen(SectionBody(b)) + Blk[b].clen + Blk[b].len
  /\ consumed' = consumed + SectionLen(b)
  /\ pos' = pos + 1

Next ==
  /\ ~done
  /\ IF AtEnd
       THEN /\ hist' = Append(hist, [call |-> "next", res |-> "eof"])
            /\ done' = TRUE
            /\ UNCHANGED <<pos, off, consumed>>
       ELSE /\ hist' = Append(hist, [call |-> "next", res |-> "block", b |-> a.secs[pos]])
            /\ Advance
            /\ UNCHANGED done
  /\ UNCHANGED a

SkipNext ==
  /\ ~done
  /\ IF AtEnd
       THEN /\ hist' = Append(hist, [call |-> "skip", res |-> "eof"])
            /\ done' = TRUE
            /\ UNCHANGED <<pos, off, consumed>>
       ELSE /\ hist' = Append(hist, [call |-> "skip", res |-> "meta", b |-> a.secs[pos],
                                     offset |-> off - DataBase(a), source |-> off, size |-> Blk[a.secs[pos]].len])
            /\ Advance
            /\ UNCHANGED done
  /\ UNCHANGED a

Step == Next \/ SkipNext
Spec == Init /\ [][Step]_vars

(* closed form = incremental bookkeeping *)
OffsetExact ==
  ~AtEnd => /\ off = Scan(a)[pos].src
            /\ off - DataBase(a) = Scan(a)[pos].off
(* the offset an index records for that section *)
OffsetIsIndexOffset ==
  \A i \in 1..Len(hist) : hist[i].res = "meta" =>
     hist[i].offset \in { r.off : r \in Range(IndexRecsA(a, TRUE)) }
(* a CARv2 source is never consumed past the end of the payload *)
NoOverread == a.ver = 2 => consumed <= DataBase(a) + PayLen(a)
SameCidSequence ==
  \A i \in 1..Len(hist) : hist[i].res \in {"block", "meta"} => hist[i].b = a.secs[i]

Emit == done => PrintT(ToJson([rec |-> "reader", a |-> a, hist |-> hist,
                               end |-> [consumed |-> consumed, limit |-> DataBase(a) + PayLen(a)]]))
=============================================================================
