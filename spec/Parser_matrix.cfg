CONSTANTS
  MaxHeader = 3
  MaxSection = 2
  Lens = {0}
  MaxTokens = 0
  ZeroIsEOF = FALSE
SPECIFICATION Spec
CHECK_DEADLOCK FALSE
INVARIANT EmitMatrix
