CONSTANTS
  Recs <- RecSet
  Dig <- DigTab
  MaxLoad = 4
SPECIFICATION Spec
CHECK_DEADLOCK FALSE
INVARIANT Emit
