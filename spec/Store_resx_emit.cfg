CONSTANTS
  OptSet <- ResXOpts
  RootSets <- ResXRoots
  PutIds <- ResXPutIds
  ManyArgs <- ResMany
  ProbeIds <- ResXProbes
  MaxSecs = 3
SPECIFICATION Spec
INVARIANT Emit
CHECK_DEADLOCK FALSE
