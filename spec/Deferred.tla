------------------------------ MODULE Deferred ------------------------------
(***************************************************************************)
(* The deferred CAR writer (C20).                                          *)
(*   created : the underlying writer (and, for a path target, the file)    *)
(*             exists; FALSE until the first Put                           *)
(*   cbs     : registered put callbacks, in registration order             *)
(*   secs    : sections written so far (the inner writable storage)        *)
(*   closed  : Close was called                                            *)
(* Output bytes are a function of (created, closed, secs): nothing at all  *)
(* while ~created, otherwise exactly what a directly constructed           *)
(* storage.NewWritable writes for the same puts (CarBase layout).          *)
(***************************************************************************)
EXTENDS CarBase, Json

CONSTANTS Cfgs,     \* set of [target ("path"|"stream"), v1, ident, dup, whole, pre]
                    \* pre: the path already holds a (longer) file when the writer is constructed;
                    \* target = "stream" with v1 = FALSE: the caller passed WriteAsCarV1(false) explicitly
          Roots,    \* one root list
          PutIds, HasIds, MaxOps, MaxCbs

VARIABLES d, hist
vars == <<d, hist>>

Init == /\ \E c \in Cfgs : d = [c |-> c, created |-> FALSE, closed |-> FALSE, cbs |-> <<>>, secs |-> <<>>, nreg |-> 0]
        /\ hist = <<>>

Key(c, b)        == StoreKey(c.whole, b)
Carries(c, s, b) == \E i \in 1..Len(s) : Key(c, s[i]) = Key(c, b)
Stored(c, s, b)  == IF IsIdent(b) /\ ~c.ident THEN s
                    ELSE IF ~c.dup /\ Carries(c, s, b) THEN s ELSE Append(s, b)

Rec(op, res, fired, nd) == /\ Len(hist) < MaxOps
                           /\ hist' = Append(hist, [op |-> op, res |-> res, fired |-> fired, after |-> nd])
                           /\ d' = nd

OnPut(once) ==
  /\ d.nreg < MaxCbs
  /\ Rec([op |-> "onput", id |-> d.nreg + 1, once |-> once], {"ok"}, <<>>,
         [d EXCEPT !.cbs = Append(@, [id |-> d.nreg + 1, once |-> once]), !.nreg = @ + 1])

Has(b) ==
  IF d.closed THEN Rec([op |-> "has", b |-> b], {"closed"}, <<>>, d)
  ELSE IF ~d.created THEN Rec([op |-> "has", b |-> b], {"false"}, <<>>, d)     \* and nothing is created
  ELSE Rec([op |-> "has", b |-> b],
           {IF (IsIdent(b) /\ ~d.c.ident) \/ Carries(d.c, d.secs, b) THEN "true" ELSE "false"}, <<>>, d)

(* A direct writer with these options cannot be constructed at all: CARv2 needs a target that can be
   written at an offset, a plain stream cannot.  The deferred writer must refuse likewise -- at the first
   Put, since it constructs nothing before -- and write nothing.  The listeners have been told by then. *)
Refuses(c) == c.target = "stream" /\ ~c.v1        \* target "wstream": a stream that is also an io.WriterAt is not refused

Put(b) ==
  IF d.closed THEN Rec([op |-> "put", b |-> b], {"closed"}, <<>>, d)          \* no callback after Close
  ELSE IF Refuses(d.c)
    THEN Rec([op |-> "put", b |-> b], {"err"},
             [i \in 1..Len(d.cbs) |-> [id |-> d.cbs[i].id, n |-> Blk[b].len]],
             [d EXCEPT !.cbs = SelectSeq(d.cbs, LAMBDA cb : ~cb.once)])
  ELSE Rec([op |-> "put", b |-> b], {"ok"},
           [i \in 1..Len(d.cbs) |-> [id |-> d.cbs[i].id, n |-> Blk[b].len]],   \* every callback, registration order
           [d EXCEPT !.created = TRUE,
                     !.secs = Stored(d.c, d.secs, b),
                     !.cbs = SelectSeq(d.cbs, LAMBDA cb : ~cb.once)])

Close ==
  IF d.closed THEN Rec([op |-> "close"], {"closed"}, <<>>, d)
  ELSE Rec([op |-> "close"], {"ok"}, <<>>, [d EXCEPT !.closed = TRUE])

Next == \/ \E o \in BOOLEAN : OnPut(o)
        \/ \E b \in HasIds : Has(b)
        \/ \E b \in PutIds : Put(b)
        \/ Close
Spec == Init /\ [][Next]_vars

(* What the target holds *)
Output(x) ==
  IF ~x.created THEN [kind |-> IF x.c.pre THEN "untouched" ELSE "nothing"]
  ELSE IF x.c.v1 THEN [kind |-> "v1", roots |-> Roots, secs |-> x.secs]
  ELSE IF x.closed THEN [kind |-> "v2", roots |-> Roots, secs |-> x.secs]
  ELSE [kind |-> "v2open", roots |-> Roots, secs |-> x.secs]

Lazy == ~d.created => (d.secs = <<>> /\ \A i \in 1..Len(hist) : hist[i].op.op # "put" \/ hist[i].res \in {{"closed"}, {"err"}})
OnceFiresOnce ==
  \A id \in 1..d.nreg :
     LET fires == { i \in 1..Len(hist) : \E k \in 1..Len(hist[i].fired) : hist[i].fired[k].id = id }
         reg   == CHOOSE i \in 1..Len(hist) : hist[i].op.op = "onput" /\ hist[i].op.id = id
         once  == hist[reg].op.once
         putsAfter == { i \in (reg+1)..Len(hist) : hist[i].op.op = "put" /\ hist[i].res \in {{"ok"}, {"err"}} }
     IN IF once THEN Cardinality(fires) = (IF putsAfter = {} THEN 0 ELSE 1)
        ELSE fires = putsAfter
ClosedIsFinal == [][d.closed => d'.closed /\ d'.secs = d.secs /\ d'.created = d.created]_vars
AppendOnly == [][IsPrefix(d.secs, d'.secs)]_vars

Emit == Len(hist) = MaxOps => PrintT(ToJson([rec |-> "deferred", c |-> d.c, roots |-> Roots,
            hist |-> [i \in 1..Len(hist) |-> [op |-> hist[i].op, res |-> hist[i].res, fired |-> hist[i].fired,
                                               out |-> Output(hist[i].after)]]]))
=============================================================================
