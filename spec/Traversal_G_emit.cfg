CONSTANTS
  Nodes <- Nodes4
  MaxKids = 3
  Alias = FALSE
  Options <- GOpts
SPECIFICATION Spec
CHECK_DEADLOCK FALSE
INVARIANT Emit
