CONSTANTS
  Nodes <- Nodes3
  MaxKids = 3
  Alias = TRUE
  Options <- AOpts
SPECIFICATION Spec
CHECK_DEADLOCK FALSE
INVARIANT Emit
