------------------------------ MODULE Transform ------------------------------
(***************************************************************************)
(* Container transforms as actions on an abstract file (C10):              *)
(*   Wrap      CARv1 -> CARv2 (pragma, header, unmodified payload, index)  *)
(*   Extract   CARv2 -> its payload, whatever the destination held before  *)
(*             (absent, a larger file, the source itself -- also when it   *)
(*             is named through another spelling or a symbolic link)       *)
(*   Replace   roots replaced in place iff the new header has equal length *)
(* The file is an archive record of ArchiveOps; the payload bytes are a    *)
(* function of (roots, secs).  TLC checks that no action ever changes the  *)
(* section list, that roots change only through an equal-length Replace,   *)
(* and extract(wrap(x)) = x.  Every behaviour of bounded length is printed *)
(* and replayed on real files, comparing all bytes after every step.       *)
(***************************************************************************)
EXTENDS ArchiveOps, Json

CONSTANTS RootLists, SecIds, MaxLen, Conts, ReplRoots, MaxOps

VARIABLES f, f0, hist
vars == <<f, f0, hist>>

Mk(r, s, c) == [roots |-> r, secs |-> s, ver |-> c.ver, dpad |-> c.dpad, ipad |-> c.ipad, idx |-> c.idx,
                full |-> c.full, npad |-> c.npad, hx |-> IF "hx" \in DOMAIN c THEN c.hx ELSE 0, xid |-> FALSE]

Init == /\ \E r \in RootLists, k \in 0..MaxLen, c \in Conts : \E s \in [1..k -> SecIds] : f = Mk(r, s, c)
        /\ f0 = f
        /\ hist = <<>>

Step(op, res, nf) == /\ Len(hist) < MaxOps
                     /\ hist' = Append(hist, [op |-> op, res |-> res, after |-> nf])
                     /\ f' = nf
                     /\ UNCHANGED f0

(* ident: the caller passed StoreIdentityCIDs: the index lists the identity sections, the header is the default one *)
Wrap(codec, ident) ==
  IF f.ver = 1
    THEN Step([op |-> "wrap", codec |-> codec, ident |-> ident], "ok",
              [f EXCEPT !.ver = 2, !.dpad = 0, !.ipad = 0, !.idx = codec, !.full = FALSE, !.xid = ident])
    ELSE FALSE        \* wrapping something that is not a CARv1 is outside the property

Extract(dst) ==
  IF f.ver = 2
    THEN Step([op |-> "extract", dst |-> dst], "ok",
              [f EXCEPT !.ver = 1, !.dpad = 0, !.ipad = 0, !.idx = "none", !.full = FALSE, !.xid = FALSE])
    ELSE Step([op |-> "extract", dst |-> dst], "err", f)      \* already a CARv1: refused, untouched

(* The new header is written canonically over the one on disk, whose length is HLen(f) -- with a
   non-canonical header that is NOT the length of a re-encoding of the decoded header. *)
Replace(r) ==
  IF HeaderLen(r) = HLen(f)
    THEN Step([op |-> "replace", roots |-> r], "ok", [f EXCEPT !.roots = r, !.hx = 0])
    ELSE Step([op |-> "replace", roots |-> r], "err", f)       \* refused, file untouched

Next == \/ \E c \in {"mh", "sorted"}, i \in BOOLEAN : Wrap(c, i)
        \/ \E d \in {"absent", "larger", "same", "alias", "symlink"} : Extract(d)      \* alias / symlink: the source itself, named otherwise
        \/ \E r \in ReplRoots : Replace(r)
Spec == Init /\ [][Next]_vars

SecsNeverChange == f.secs = f0.secs
RootsOnlyEqualLength == HLen(f) = HLen(f0)
PayloadLenStable == SectionsLen(f) = SectionsLen(f0)
ExtractWrapIdentity ==
  \A i \in 1..(Len(hist) - 1) :
     (hist[i].op.op = "wrap" /\ hist[i+1].op.op = "extract") =>
        LET before == IF i = 1 THEN f0 ELSE hist[i-1].after IN hist[i+1].after = before
ErrLeavesFile == [][\A i \in 1..Len(hist') : hist'[i].res = "err" =>
                        hist'[i].after = (IF i = 1 THEN f0 ELSE hist'[i-1].after)]_vars

Emit == Len(hist) = MaxOps => PrintT(ToJson([rec |-> "transform", f0 |-> f0, hist |-> hist]))
=============================================================================
