------------------------------ MODULE MCReader ------------------------------
EXTENDS Reader

C(v, dp, ip, ix) == [ver |-> v, dpad |-> dp, ipad |-> ip, idx |-> ix, full |-> FALSE, npad |-> 0]
NC(c) == [hx |-> 1] @@ c        \* the same container around a payload whose header is not canonically encoded
StdConts == { C(1, 0, 0, "none"), C(2, 0, 0, "mh"), C(2, 1, 7, "sorted"), C(2, 1413, 0, "none"), NC(C(1, 0, 0, "none")), NC(C(2, 1, 7, "sorted")),
              C(2, 32868, 0, "none") }      \* a data padding longer than 32 KiB and not a multiple of it: skipped by reading on a plain stream

QuickIds   == {"b1", "b3", "b5", "b10", "b12", "b13", "b14", "b15", "b19"}     \* b15: a 16 KiB block (longer than a skip buffer)
QuickRoots == { <<>>, <<"b1">>, <<"b3", "b4">>, <<"b10">>, <<"b22">> }   \* b10/b22: roots whose CBOR byte-string head is 1 / 3 bytes
ThorIds    == {"b1", "b3", "b5", "b6", "b8", "b9", "b10", "b12", "b13", "b14", "b15", "b16", "b19"}
=============================================================================
