------------------------------ MODULE MCStore ------------------------------
(* Model constants for Store.tla: one definition per configuration family. *)
EXTENDS Store

Lay(n) == CASE n = 0 -> [dpad |-> 0,    ipad |-> 0,    codec |-> "mh"]
            [] n = 1 -> [dpad |-> 33,   ipad |-> 7,    codec |-> "sorted"]
            [] n = 2 -> [dpad |-> 1413, ipad |-> 4096, codec |-> "mh"]
            [] n = 3 -> [dpad |-> 8,    ipad |-> 1,    codec |-> "sorted"]
            [] n = 4 -> [dpad |-> 0,    ipad |-> 0,    codec |-> "none"]       \* WithoutIndex: Finalize cannot succeed

B2N(b) == IF b THEN 1 ELSE 0
MkOpt(w, d, i, v, m, l) ==
  [whole |-> w, dup |-> d, ident |-> i, v1 |-> v, maxcid |-> m, maxsec |-> 0,
   dpad |-> Lay(l).dpad, ipad |-> Lay(l).ipad, codec |-> Lay(l).codec]

(* C04: the full semantic option matrix; the layout varies with the options so that every layout
   is met without multiplying the matrix (C05 varies it independently). *)
SemOpts == { MkOpt(w, d, i, v, 64, (B2N(w) + 2 * B2N(d) + B2N(i)) % 4) :
               w \in BOOLEAN, d \in BOOLEAN, i \in BOOLEAN, v \in BOOLEAN }
           \cup { MkOpt(FALSE, FALSE, FALSE, FALSE, 64, 4) }
SemRoots   == { <<"b1">>, <<>> }
SemPutIds  == {"b1", "b2", "b3", "b5", "b7", "b8", "b11", "b18"}
SemMany    == { <<"b4", "b2">>, <<"b1", "b8">>, <<"b3", "b3">>, <<>> }     \* the empty batch: nothing on an open store, an error like any write on a closed one
SemProbes  == {"b1", "b2", "b3", "b4", "b5", "b7", "b8", "b10", "b11", "b19", "b20"}

(* C05: layouts x identity x v1, roots incl. none / v0 / duplicate; boundary-length blocks *)
LayOpts == { MkOpt(FALSE, d, i, v, 2048, l) : d \in {FALSE}, i \in BOOLEAN, v \in BOOLEAN, l \in 0..3 }
LayRoots   == { <<>>, <<"b1">>, <<"b3", "b4">>, <<"b1", "b1">>, <<"b13">>, <<"b10">> }
LayPutIds  == {"b1", "b5", "b10", "b12", "b13", "b14", "b15", "b16"}
LayMany    == { <<"b13", "b14">>, <<"b14", "b1">> }     \* b14 first: a 128-byte section body followed by another block of the batch
LayProbes  == {"b1", "b5", "b12", "b13", "b14"}     \* b12: a stored block without data bytes (size 0)

(* C12: interleavings of puts and interruptions; every reopen variant *)
ResOpts == { MkOpt(FALSE, d, i, v, 2048, l) : d \in BOOLEAN, i \in BOOLEAN, v \in BOOLEAN, l \in 0..2 }
(* a reader-side section limit (MaxAllowedSectionSize 40) below the size of stored sections: writing, finalizing and
   resuming do not depend on it (only lookups do, and the replayer does not consult them under this option) *)
ResLimOpts == { [MkOpt(FALSE, FALSE, FALSE, v, 2048, 0) EXCEPT !.maxsec = 40] : v \in BOOLEAN }
ResOptsT == ResOpts \cup ResLimOpts
ResOptsQ == { o \in ResOpts : o.dpad < 1000 } \cup ResLimOpts    \* quick tier: the two small layouts
ResRoots   == { <<"b1">>, <<"b3", "b4">>, <<>>, <<"b1", "b1">> }
ResPutIds  == {"b8", "b12", "b5"}     \* b8: 68-byte CID (sha2-512); b12: a section that ends with its CID (no data bytes)
ResMany    == {}
(* a second, small resumption configuration: a 16 KiB block that is followed by other sections, and a block that does not verify *)
ResXOpts   == { MkOpt(FALSE, FALSE, FALSE, v, 2048, 0) : v \in BOOLEAN }
ResXRoots  == { <<"b1">> }
ResXPutIds == {"b15", "b7", "b1"}     \* b15: 16 347 data bytes; b7: blake2b code over another block's digest (invalid block)
ResXProbes == {"b15", "b7", "b1"}
ResProbes  == {"b1", "b8", "b12", "b5"}
=============================================================================
