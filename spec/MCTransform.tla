---------------------------- MODULE MCTransform ----------------------------
EXTENDS Transform
C(v, dp, ip, ix, fu) == [ver |-> v, dpad |-> dp, ipad |-> ip, idx |-> ix, full |-> fu, npad |-> 0]
(* a CARv1 followed by null padding: wrapped (with ZeroLengthSectionAsEOF) the padding is part of
   the unmodified source bytes *)
CN(n) == [C(1, 0, 0, "none", FALSE) EXCEPT !.npad = n]
TConts == { C(1, 0, 0, "none", FALSE), CN(3), [hx |-> 1] @@ C(1, 0, 0, "none", FALSE), [hx |-> 1] @@ C(2, 0, 0, "mh", FALSE), C(2, 0, 0, "mh", FALSE), C(2, 1, 7, "sorted", FALSE), C(2, 1413, 0, "none", FALSE), C(2, 8, 1407, "mh", TRUE) }
TRoots == { <<>>, <<"b1">>, <<"b3">>, <<"b1", "b4">>, <<"b10">> }
TIds   == {"b1", "b3", "b5", "b10", "b13", "b14"}
TRepl  == { <<>>, <<"b2">>, <<"b3">>, <<"b4", "b1">>, <<"b1", "b3">>, <<"b20">> }
=============================================================================
