-------------------------------- MODULE Index --------------------------------
(***************************************************************************)
(* The two on-disk index formats as a specification (C11).                 *)
(*                                                                         *)
(* A record is [code, dig, off]: hash function code, digest identity and   *)
(* offset identity (offsets are opaque tokens: some of them stand for      *)
(* values beyond 2^32, which TLC cannot represent; the harness maps them). *)
(* Digest identities carry their width and their rank in byte order.       *)
(*                                                                         *)
(* `loaded` is the sequence of records in the order they were loaded.      *)
(* Canon(l, codec) is the serial form as a list of buckets                 *)
(*   [code (mh codec only), width, entries]                                *)
(* with buckets ascending by (code, width) and entries ascending by        *)
(* digest; the relative order of entries with one digest is left open,     *)
(* so entries are given as a sequence of [dig, offs] with offs a BAG.      *)
(* TLC checks that Canon does not depend on the load order and that the    *)
(* lookups are functions of the record multiset.                           *)
(***************************************************************************)
EXTENDS Integers, Sequences, FiniteSets, TLC, SequencesExt, FiniteSetsExt, Functions, Bags, Json

CONSTANTS Recs,        \* record alphabet: set of [code, dig, off]
          Dig,         \* digest table: dig id |-> [w (width in bytes), rank (byte order within the width)]
          MaxLoad      \* bound on the number of loaded records

VARIABLE loaded
vars == <<loaded>>

Init == loaded = <<>>
Load(r) == Len(loaded) < MaxLoad /\ loaded' = Append(loaded, r)
Next == \E r \in Recs : Load(r)
Spec == Init /\ [][Next]_vars

---------------------------------------------------------------------------
Key(codec, r) == IF codec = "mh" THEN <<r.code, r.dig>> ELSE <<r.dig>>
(* lookup by a query [code, dig]: the set of offsets *)
GetAll(l, codec, q) == { l[i].off : i \in { j \in 1..Len(l) : Key(codec, l[j]) = Key(codec, q) } }
(* ... and how many callbacks (a multiset size) *)
GetAllCount(l, codec, q) == Cardinality({ j \in 1..Len(l) : Key(codec, l[j]) = Key(codec, q) })

Codes(l)        == { l[i].code : i \in 1..Len(l) }
InBucket(l, codec, c, w) == { i \in 1..Len(l) : (codec = "mh" => l[i].code = c) /\ Dig[l[i].dig].w = w }
Widths(l, codec, c)      == { Dig[l[i].dig].w : i \in { j \in 1..Len(l) : codec = "mh" => l[j].code = c } }
DigsOf(l, S)    == { l[i].dig : i \in S }
SortDigs(D)     == SetToSortSeq(D, LAMBDA a, b : Dig[a].rank < Dig[b].rank)
OffBag(l, S, d) == LET T == { i \in S : l[i].dig = d } IN
                   [o \in { l[i].off : i \in T } |-> Cardinality({ i \in T : l[i].off = o })]

Bucket(l, codec, c, w) ==
  LET S == InBucket(l, codec, c, w) ds == SortDigs(DigsOf(l, S)) IN
  [code |-> IF codec = "mh" THEN c ELSE -1, width |-> w, count |-> Cardinality(S),
   entries |-> [k \in 1..Len(ds) |-> [dig |-> ds[k], offs |-> OffBag(l, S, ds[k])]]]

Canon(l, codec) ==
  LET cs == IF codec = "mh" THEN SetToSortSeq(Codes(l), <) ELSE <<-1>> IN
  FlattenSeq([k \in 1..Len(cs) |->
     LET ws == SetToSortSeq(Widths(l, codec, cs[k]), <) IN
     [m \in 1..Len(ws) |-> Bucket(l, codec, cs[k], ws[m])]])

(* byte length of the serial form (codec varint is 2 bytes for both codecs) *)
WidthsLen(l, codec, c) ==
  4 + FoldSet(LAMBDA w, acc : acc + 12 + (w + 8) * Cardinality(InBucket(l, codec, c, w)), 0, Widths(l, codec, c))
SerialLen(l, codec) ==
  2 + IF codec = "mh" THEN 4 + FoldSet(LAMBDA c, acc : acc + 8 + WidthsLen(l, codec, c), 0, Codes(l))
      ELSE WidthsLen(l, codec, -1)

---------------------------------------------------------------------------
Perms(l) == { [i \in 1..Len(l) |-> l[p[i]]] : p \in Permutations(1..Len(l)) }
OrderIndependent == \A codec \in {"mh", "sorted"} : \A p \in Perms(loaded) :
                      /\ Canon(p, codec) = Canon(loaded, codec)
                      /\ SerialLen(p, codec) = SerialLen(loaded, codec)
LookupsAreMultisetFunctions ==
  \A codec \in {"mh", "sorted"} : \A p \in Perms(loaded) : \A q \in Recs :
     GetAll(p, codec, q) = GetAll(loaded, codec, q)
MhRefinesSorted == \A q \in Recs : GetAll(loaded, "mh", q) \subseteq GetAll(loaded, "sorted", q)
BucketsAscending ==
  \A codec \in {"mh", "sorted"} : LET c == Canon(loaded, codec) IN
    \A i \in 1..(Len(c) - 1) : c[i].code < c[i+1].code \/ (c[i].code = c[i+1].code /\ c[i].width < c[i+1].width)

Answers(codec) == [q \in Recs |-> [offs |-> GetAll(loaded, codec, q), n |-> GetAllCount(loaded, codec, q)]]
RecName(r) == ToString(r.code) \o "/" \o r.dig \o "@" \o r.off
Emit == PrintT(ToJson([rec |-> "index", loaded |-> loaded,
                       mh     |-> [canon |-> Canon(loaded, "mh"), len |-> SerialLen(loaded, "mh"),
                                   ans |-> [n \in { RecName(q) : q \in Recs } |-> LET q == CHOOSE x \in Recs : RecName(x) = n IN Answers("mh")[q]]],
                       sorted |-> [canon |-> Canon(loaded, "sorted"), len |-> SerialLen(loaded, "sorted"),
                                   ans |-> [n \in { RecName(q) : q \in Recs } |-> LET q == CHOOSE x \in Recs : RecName(x) = n IN Answers("sorted")[q]]]]))
=============================================================================
