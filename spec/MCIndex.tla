------------------------------ MODULE MCIndex ------------------------------
EXTENDS Index
R(c, d, o) == [code |-> c, dig |-> d, off |-> o]
DigTab == [D32a |-> [w |-> 32, rank |-> 1], D32b |-> [w |-> 32, rank |-> 2], D20 |-> [w |-> 20, rank |-> 1],
           D64 |-> [w |-> 64, rank |-> 1], D0 |-> [w |-> 0, rank |-> 1], D32z |-> [w |-> 32, rank |-> 0],
           D200 |-> [w |-> 200, rank |-> 1]]       \* a digest whose length needs a two-byte varint in the multihash
RecSet == { R(18, "D32a", "o0"), R(18, "D32a", "o1"), R(18, "D32b", "o32"), R(45600, "D32a", "o63m"), R(0, "D32a", "o63"),
            R(0, "D0", "o1"), R(18, "D20", "o0"), R(18, "D64", "o1"), R(45600, "D32b", "o0"), R(18, "D32z", "o1"), R(0, "D200", "o32"),
            R(4179, "D20", "o1") }     \* 4179 = 0x1053 ripemd-160: a hash code the multihash library has no name for
=============================================================================
