----------------------------- MODULE ReaderObs -----------------------------
(***************************************************************************)
(* C02, code -> spec direction.  The harness runs every verifying/scanning *)
(* reader over every proper prefix and every byte corruption of valid      *)
(* archives and records one observation per (archive, mutation, reader).   *)
(* This module reads the recorded observations and evaluates the P-layer   *)
(* relation Allowed on each of them; a rejected record is printed and is   *)
(* a violation on the real code.                                           *)
(*                                                                         *)
(* Observation: [aid, kind ("trunc"|"flip"), k, sec, reader, n, bad, end]  *)
(*   n   : number of blocks the reader returned before it stopped          *)
(*   bad : some returned block was not the original block at its position  *)
(*   end : "eof" (clean end / success), "err", "ctor-err"                  *)
(***************************************************************************)
EXTENDS ArchiveOps, Json, IOUtils

ObsFile  == IOEnv.VERIF_OBS
ArchFile == IOEnv.VERIF_ARCH
Obs   == ndJsonDeserialize(ObsFile)
Archs == ndJsonDeserialize(ArchFile)
ArchOf(aid) == (CHOOSE i \in 1..Len(Archs) : Archs[i].aid = aid)

(* Region of a cut at file offset k *)
HdrEnd(a)     == DataBase(a) + HLen(a)
SecEnd(a, j)  == DataBase(a) + (IF j = 0 THEN HLen(a) ELSE Shift(a) + SecOffset(a.roots, a.secs, j) + SectionLen(a.secs[j]))
(* number of complete sections in the first k bytes *)
Complete(a, k) == Cardinality({ j \in 1..Len(a.secs) : SecEnd(a, j) <= k })
OnBoundary(a, k) == \E j \in 0..Len(a.secs) : SecEnd(a, j) = k

AllowedTrunc(a, o) ==
  /\ ~o.bad
  /\ IF o.k < HdrEnd(a)
       THEN o.end \in {"ctor-err", "err"} /\ o.n = 0
     ELSE IF OnBoundary(a, o.k)
       \* a cut exactly between sections: silent truncation is not demanded to be detected; a reader
       \* that knows the payload size may still report it
       THEN \/ o.end = "eof" /\ o.n = Complete(a, o.k)
            \/ o.end \in {"err", "ctor-err"} /\ o.n <= Complete(a, o.k)
     ELSE o.end \in {"err", "ctor-err"} /\ o.n <= Complete(a, o.k)

(* a damaged byte in the data or digest of section o.sec: at most the earlier sections, then an error *)
AllowedFlip(a, o) ==
  /\ ~o.bad
  /\ o.end \in {"err", "ctor-err"}
  /\ o.n <= o.sec - 1

Allowed(o) ==
  LET a == Archs[ArchOf(o.aid)].a IN
  IF o.kind = "trunc" THEN AllowedTrunc(a, o) ELSE AllowedFlip(a, o)

VARIABLE i
Init == i = 1
Next == i <= Len(Obs) /\ i' = i + 1
Spec == Init /\ [][Next]_i

Check == i <= Len(Obs) => (Allowed(Obs[i]) \/ PrintT(<<"REJECT", i>>))
Done  == i > Len(Obs) => PrintT(<<"VALIDATED", Len(Obs)>>)
=============================================================================
