CONSTANTS
  RootLists <- TruncRoots
  SecIds <- IdsT
  MaxLen = 3
  Conts <- TruncConts
  Probes <- ProbesStd
SPECIFICATION Spec
CHECK_DEADLOCK FALSE
INVARIANT EmitScan
