CONSTANTS
  Leaves <- QLeaves
  TopOnly <- QTopOnly
  DirNames <- QDirNames
  MaxTop = 2
  MaxChild = 2
  Configs <- QConfigs
SPECIFICATION Spec
CHECK_DEADLOCK FALSE
INVARIANT RoundTrip
