------------------------------ MODULE CarBase ------------------------------
(***************************************************************************)
(* Shared arithmetic of the CAR formats over the block alphabet.           *)
(*                                                                         *)
(* An archive is described abstractly as a root list (sequence of block    *)
(* ids whose CIDs are the roots) and a section list (sequence of block     *)
(* ids).  Every byte length is an operator over these, using the real CID  *)
(* and data lengths recorded in Alphabet.Blk, so the specifications        *)
(* predict the exact offsets the implementation has to produce.            *)
(***************************************************************************)
EXTENDS Integers, Sequences, FiniteSets, TLC, Alphabet, SequencesExt, FiniteSetsExt, Functions

SumSeq(s) == FoldLeft(+, 0, s)

VarintLen(n) ==
  IF n < 128 THEN 1
  ELSE IF n < 16384 THEN 2
  ELSE IF n < 2097152 THEN 3
  ELSE IF n < 268435456 THEN 4 ELSE 5

(* dag-cbor head sizes *)
CborHead(n) == IF n < 24 THEN 1 ELSE IF n < 256 THEN 2 ELSE IF n < 65536 THEN 3 ELSE 5

(* tag(42) ++ bytes(1 + clen) ++ 0x00 ++ cid *)
RootEnc(b) == 2 + CborHead(Blk[b].clen + 1) + 1 + Blk[b].clen

(* map(2) "roots" array(n) roots... "version" 1 *)
HeaderBodyLen(roots) ==
  1 + 6 + CborHead(Len(roots)) + SumSeq([i \in 1..Len(roots) |-> RootEnc(roots[i])]) + 8 + 1
HeaderLen(roots) == VarintLen(HeaderBodyLen(roots)) + HeaderBodyLen(roots)

SectionBody(b) == Blk[b].clen + Blk[b].len
SectionLen(b)  == VarintLen(SectionBody(b)) + SectionBody(b)

PayloadLen(roots, secs) == HeaderLen(roots) + SumSeq([i \in 1..Len(secs) |-> SectionLen(secs[i])])

(* payload-relative offset of the length prefix of section i *)
SecOffset(roots, secs, i) ==
  HeaderLen(roots) + SumSeq([j \in 1..(i-1) |-> SectionLen(secs[j])])
(* payload-relative offset of the data bytes of section i *)
SecDataOffset(roots, secs, i) ==
  SecOffset(roots, secs, i) + VarintLen(SectionBody(secs[i])) + Blk[secs[i]].clen

PragmaSize   == 11
V2HeaderSize == 40

---------------------------------------------------------------------------
(* Keys *)
IsIdent(b)  == Blk[b].hcode = IdentityCode
MhKey(b)    == <<Blk[b].hcode, Blk[b].dig, Blk[b].dlen>>      \* the multihash
DigKey(b)   == <<Blk[b].dig, Blk[b].dlen>>                    \* the bare digest
CidKey(b)   == <<Blk[b].ver, Blk[b].codec, MhKey(b)>>         \* the whole CID
SameCid(a, b) == CidKey(a) = CidKey(b)
SameMh(a, b)  == MhKey(a) = MhKey(b)
SameDig(a, b) == DigKey(a) = DigKey(b)

(* The key a store identifies a block by *)
StoreKey(whole, b) == IF whole THEN CidKey(b) ELSE MhKey(b)

---------------------------------------------------------------------------
(* CARv2 layout (C05): pragma | header | dataPad | payload | idxPad | index *)
DataOffsetOf(dpad)               == PragmaSize + V2HeaderSize + dpad
IndexOffsetOf(dpad, ipad, plen)  == DataOffsetOf(dpad) + plen + ipad

(* Index records: the multiset of <<hcode, dig, dlen, offset>> (as a sequence in section order).
   Identity CIDs are indexed iff storeIdent. *)
IndexRecs(roots, secs, storeIdent) ==
  LET all == [i \in 1..Len(secs) |->
                [hcode |-> Blk[secs[i]].hcode, dig |-> Blk[secs[i]].dig, dlen |-> Blk[secs[i]].dlen,
                 off |-> SecOffset(roots, secs, i), b |-> secs[i]]]
  IN SelectSeq(all, LAMBDA r : storeIdent \/ r.hcode # IdentityCode)

(* Offsets an index must report for a query block q.
   mhPrecise: TRUE for car-multihash-index-sorted (key = multihash),
              FALSE for car-index-sorted and the insertion index (key = bare digest). *)
IndexOffsets(roots, secs, storeIdent, mhPrecise, q) ==
  LET rs == IndexRecs(roots, secs, storeIdent)
  IN { rs[i].off : i \in { j \in 1..Len(rs) :
         IF mhPrecise THEN SameMh(rs[j].b, q) ELSE SameDig(rs[j].b, q) } }

=============================================================================
