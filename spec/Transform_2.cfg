CONSTANTS
  RootLists <- TRoots
  SecIds <- TIds
  MaxLen = 2
  Conts <- TConts
  ReplRoots <- TRepl
  MaxOps = 2
SPECIFICATION Spec
CHECK_DEADLOCK FALSE
INVARIANTS SecsNeverChange RootsOnlyEqualLength PayloadLenStable ExtractWrapIdentity
PROPERTY ErrLeavesFile
