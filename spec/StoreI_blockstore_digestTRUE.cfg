CONSTANTS
  OptSet <- IOpts
  RootSets <- IRoots
  PutIds <- IPuts
  ProbeIds <- IProbes
  MaxSecs = 3
  DedupeByDigest = TRUE
  Kind = "blockstore"
SPECIFICATION Spec
CHECK_DEADLOCK FALSE
INVARIANTS ObserversAgree IndexMatchesFile PosIsEnd
PROPERTY StepAdmitted
