CONSTANTS
  OptSet <- SemOpts
  RootSets <- SemRoots
  PutIds <- SemPutIds
  ManyArgs <- SemMany
  ProbeIds <- SemProbes
  MaxSecs = 4
SPECIFICATION Spec
INVARIANT Emit
CHECK_DEADLOCK FALSE
