CONSTANTS
  RootLists <- CliRoots
  SecIds <- CliIds
  MaxLen = 3
  Conts <- CliConts
SPECIFICATION Spec
CHECK_DEADLOCK FALSE
INVARIANTS FilterSound ConcatLen DetachListSound
