CONSTANTS
  RootLists <- QuickRoots
  SecIds <- QuickIds
  MaxLen = 3
  Conts <- StdConts
SPECIFICATION Spec
CHECK_DEADLOCK FALSE
INVARIANT Emit
