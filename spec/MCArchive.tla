----------------------------- MODULE MCArchive -----------------------------
EXTENDS ArchiveCases

C(v, dp, ip, ix, f, np) == [ver |-> v, dpad |-> dp, ipad |-> ip, idx |-> ix, full |-> f, npad |-> np]
StdConts == { C(1, 0, 0, "none", FALSE, 0), C(2, 0, 0, "mh", FALSE, 0), C(2, 1, 7, "sorted", FALSE, 0),
              C(2, 59, 0, "none", FALSE, 0), C(2, 0, 3, "mh", TRUE, 0), C(1, 0, 0, "none", FALSE, 3),
              C(2, 1, 0, "sorted", TRUE, 2),
              [hx |-> 1] @@ C(2, 0, 0, "mh", FALSE, 0) }     \* payload with a header that is not canonically encoded
SmallConts == { C(1, 0, 0, "none", FALSE, 0), C(2, 0, 0, "mh", FALSE, 0), C(2, 1, 7, "sorted", FALSE, 0), C(2, 59, 0, "none", FALSE, 0) }

StdRoots == { <<>>, <<"b1">>, <<"b3", "b4">>, <<"b1", "b1">>, <<"b22">> }    \* b22: 305-byte identity CID root
(* valid blocks only: verifying readers hash them *)
IdsA == {"b1", "b2", "b3", "b4", "b5", "b6", "b10", "b20"}          \* collisions: same mh / same digest / v0 / identity
IdsB == {"b1", "b8", "b9", "b12", "b13", "b14", "b19"}                   \* widths, empty data, varint boundaries, long CID
IdsU == {"b1", "b26", "b27"}           \* b26: hash function without a registered hasher (no reader can verify it)
IdsC == {"b24", "b23", "b25", "b1"}     \* b23/b24: identity CIDs with a long common digest prefix (indexed with StoreIdentityCIDs)
IdsBig == {"b1", "b15", "b16"}
IdsT == {"b1", "b3", "b5", "b9", "b10", "b12", "b14"}     \* b14: section body of exactly 128 bytes (prefix 0x80 0x01)
TruncConts == { C(1, 0, 0, "none", FALSE, 0), C(2, 0, 0, "mh", FALSE, 0), C(2, 59, 0, "none", FALSE, 0) }
TruncRoots == { <<>>, <<"b1">>, <<"b3", "b4">> }
IdsTBig == {"b21", "b1"}
TruncContsBig == { C(1, 0, 0, "none", FALSE, 0), C(2, 0, 0, "mh", FALSE, 0) }
TruncRootsBig == { <<"b1">> }
ProbesStd == {"b1", "b2", "b3", "b4", "b5", "b6", "b7", "b8", "b9", "b10", "b12", "b17", "b19", "b20", "b23", "b24", "b25"}
=============================================================================
