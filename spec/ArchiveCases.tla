---------------------------- MODULE ArchiveCases ----------------------------
(***************************************************************************)
(* Enumerates bounded abstract archives and prints, for each, everything   *)
(* the reader-side properties predict about it:                            *)
(*   layout (C02/C10), scan (C01/C02/C07), statistics (C13), index         *)
(*   answers for every probe CID under every index kind and identity       *)
(*   setting (C03), read-only store answers under every option set (C07).  *)
(* TLC also checks a few consistency invariants between these operators    *)
(* (they are different formulations of the same facts).                    *)
(***************************************************************************)
EXTENDS ArchiveOps, Json

CONSTANTS RootLists, SecIds, MaxLen, Conts, Probes

VARIABLES a, stage
vars == <<a, stage>>

Mk(r, s, c) == [roots |-> r, secs |-> s, ver |-> c.ver, dpad |-> c.dpad, ipad |-> c.ipad, idx |-> c.idx,
                full |-> c.full, npad |-> c.npad, hx |-> IF "hx" \in DOMAIN c THEN c.hx ELSE 0]

(* Two stages so that TLC's workers share the enumeration: the initial states fix roots and
   container, the single step picks the section list. *)
Init == stage = 0 /\ \E r \in RootLists, c \in Conts : a = Mk(r, <<>>, c)
Pick == /\ stage = 0
        /\ stage' = 1
        /\ \E k \in 0..MaxLen : \E s \in [1..k -> SecIds] : a' = [a EXCEPT !.secs = s]
Next == Pick
Spec == Init /\ [][Next]_vars

Layout(x) == [fileLen  |-> IF x.ver = 1 THEN PayLen(x)
                           ELSE IF x.idx = "none" THEN DataBase(x) + PayLen(x) ELSE -1,  \* with an index: up to the harness encoder
              dataOff  |-> DataBase(x), dataSize |-> PayLen(x), idxOff |-> IdxOff(x),
              headerLen |-> HLen(x), sectionsEnd |-> SectionsLen(x)]

IdxAnswers(x) ==
  [q \in Probes |->
     [mh_noid     |-> IndexOffsetsA(x, FALSE, TRUE, q),
      mh_id       |-> IndexOffsetsA(x, TRUE, TRUE, q),
      dig_noid    |-> IndexOffsetsA(x, FALSE, FALSE, q),
      dig_id      |-> IndexOffsetsA(x, TRUE, FALSE, q)]]

RoOpts == { [whole |-> w, ident |-> i] : w \in BOOLEAN, i \in BOOLEAN }
RoName(o) == (IF o.whole THEN "w1" ELSE "w0") \o (IF o.ident THEN "i1" ELSE "i0")
RoAnswers(x) ==
  [n \in { RoName(o) : o \in RoOpts } |->
     LET o == CHOOSE p \in RoOpts : RoName(p) = n IN
     [q \in Probes |->
        [has_ix  |-> RoHas(o, TRUE, x, q),  get_ix  |-> RoGet(o, TRUE, x, q),     \* index lists identity CIDs
         has_nix |-> RoHas(o, FALSE, x, q), get_nix |-> RoGet(o, FALSE, x, q)]]]  \* index does not

(* consistency of the formulations *)
ScanMatchesIndex ==
  \A i \in 1..Len(a.secs) :
     Scan(a)[i].off \in IndexOffsetsA(a, TRUE, TRUE, a.secs[i])
OffsetsInsidePayload ==
  \A i \in 1..Len(a.secs) : Scan(a)[i].off >= HLen(a) /\ Scan(a)[i].doff + Scan(a)[i].size <= SectionsLen(a)
MhRefinesDigest ==
  \A q \in Probes : IndexOffsetsA(a, TRUE, TRUE, q) \subseteq IndexOffsetsA(a, TRUE, FALSE, q)
StatsCount == Stats(a).count = Len(Scan(a))

Base == [rec |-> "archive", a |-> a, layout |-> Layout(a), scan |-> Scan(a)]
EmitScan  == stage = 1 => PrintT(ToJson(Base))
EmitIdx   == stage = 1 => PrintT(ToJson(Base @@ [idx |-> IdxAnswers(a)]))
EmitRo    == stage = 1 => PrintT(ToJson(Base @@ [ro |-> RoAnswers(a)]))
(* does every block hash to its CID under a hash function that can be computed? (full validation succeeds iff so) *)
Verifies(x) == \A i \in 1..Len(x.secs) : Blk[x.secs[i]].valid
EmitStats == stage = 1 => PrintT(ToJson(Base @@ [stats |-> Stats(a), verifies |-> Verifies(a)]))
=============================================================================
