CONSTANTS
  Nodes <- Nodes3
  MaxKids = 3
  Alias = FALSE
  Options <- GOpts
SPECIFICATION Spec
CHECK_DEADLOCK FALSE
INVARIANT Emit
