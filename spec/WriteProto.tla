----------------------------- MODULE WriteProto -----------------------------
(***************************************************************************)
(* I-layer: the write protocol of a read-write CAR session, as the code    *)
(* issues it (one action per write / truncate):                            *)
(*   fresh open : [pragma] ; v1-header varint ; v1-header body             *)
(*   Put        : section varint ; CID ; data   -- appended contiguously   *)
(*   Finalize   : index writes (contiguous, at or after the payload end);  *)
(*                then header characteristics (16 B at 11);                *)
(*                then header offsets (24 B at 27)   -- header LAST        *)
(*   resume     : [truncate to the payload end] ; zero characteristics ;   *)
(*                zero offsets   -- truncate BEFORE un-finalizing ;        *)
(*                then truncate to the end of the last complete section    *)
(*                (since fix 4f05b71: nothing stale stays behind the       *)
(*                resumed writer)                                          *)
(* The recorded write log of every session is validated against it. A      *)
(* rejected log is model drift (the code changed its protocol), not a      *)
(* violation: crash-safety itself is decided by CrashObs on real crash     *)
(* images.  The protocol is what makes those images meaningful, and the    *)
(* safety argument TLC checks on it is HeaderAfterIndex / AppendOnly.      *)
(***************************************************************************)
EXTENDS Integers, Sequences, TLC, Json, IOUtils

Trace == ndJsonDeserialize(IOEnv.VERIF_PROTO)

VARIABLES l, sid, st, end, sub, idxNext, hw
vars == <<l, sid, st, end, sub, idxNext, hw>>
(* st : "fresh" | "hdr" | "open" | "sec" | "index" | "hdrA" | "final" | "resumeA" 
   end: file offset where the next payload byte goes; sub: writes seen of the current section/header *)

Ev == Trace[l]
Init == l = 1 /\ sid = 0 /\ st = "fresh" /\ end = 0 /\ sub = 0 /\ idxNext = -1 /\ hw = 0

Adv == l' = l + 1

(* a new session starts: forget the state; `end` is unknown for a resumed session until the first append *)
Reset == /\ l <= Len(Trace) /\ Ev.sid # sid
         /\ sid' = Ev.sid /\ st' = "fresh" /\ end' = -1 /\ sub' = 0 /\ idxNext' = -1 /\ hw' = 0
         /\ UNCHANGED l

Pragma == /\ st = "fresh" /\ Ev.call = "open" /\ Ev.wkind = "pragma" /\ ~Ev.v1 /\ Ev.off = 0 /\ Ev.len = 11
          /\ st' = "fresh" /\ hw' = 1 /\ Adv /\ UNCHANGED <<sid, end, sub, idxNext>>

V1Header == /\ st \in {"fresh", "hdr"} /\ Ev.call = "open" /\ Ev.wkind = "v1header"
            /\ (~Ev.v1 => hw = 1)                       \* pragma first
            /\ IF st = "fresh" THEN Ev.off = Ev.dataoff ELSE Ev.off = end
            /\ end' = Ev.off + Ev.len
            /\ st' = IF st = "fresh" THEN "hdr" ELSE "open"
            /\ Adv /\ UNCHANGED <<sid, sub, idxNext, hw>>

(* resume: optional truncate, then the two zero-header writes *)
Trunc == /\ st = "fresh" /\ Ev.call = "reopen" /\ Ev.kind = "truncate" /\ ~Ev.v1
         /\ end' = Ev.size /\ st' = "fresh" /\ hw' = 2 /\ Adv /\ UNCHANGED <<sid, sub, idxNext>>
ZeroA == /\ st = "fresh" /\ Ev.call = "reopen" /\ Ev.wkind = "v2header-characteristics" /\ Ev.off = 11 /\ Ev.len = 16
         /\ st' = "resumeA" /\ Adv /\ UNCHANGED <<sid, end, sub, idxNext, hw>>
ZeroB == /\ st = "resumeA" /\ Ev.call = "reopen" /\ Ev.wkind = "v2header-offsets" /\ Ev.off = 27 /\ Ev.len = 24
         /\ st' = "open" /\ Adv /\ UNCHANGED <<sid, end, sub, idxNext, hw>>

(* after the rescan: drop what follows the last complete section (a CARv1 session has no header to zero
   and starts with this step) *)
TruncEnd == /\ Ev.call = "reopen" /\ Ev.kind = "truncate"
            /\ \/ st = "open" /\ ~Ev.v1 /\ sub = 0 /\ hw # 3
               \/ st = "fresh" /\ Ev.v1
            /\ (end >= 0 => Ev.size <= end)
            /\ end' = Ev.size /\ st' = "open" /\ hw' = 3 /\ Adv /\ UNCHANGED <<sid, sub, idxNext>>

(* Put: three contiguous appends *)
Sec == /\ st \in {"open", "sec", "fresh"} /\ Ev.call = "put" /\ Ev.wkind = "section"
       /\ (st = "fresh" => Ev.v1)                 \* a resumed CARv1 session issues no write before its first Put
       /\ (end >= 0 => Ev.off = end)              \* appended exactly at the end of the payload
       /\ end' = Ev.off + Ev.len
       /\ sub' = (sub + 1) % 3
       /\ st' = IF sub = 2 THEN "open" ELSE "sec"
       /\ Adv /\ UNCHANGED <<sid, idxNext, hw>>

(* Finalize: index writes, then header A, then header B *)
Idx == /\ st \in {"open", "index", "fresh"} /\ sub = 0 /\ Ev.call = "finalize" /\ Ev.wkind = "index" /\ ~Ev.v1
       /\ (end >= 0 => Ev.off >= end)
       /\ (idxNext >= 0 => Ev.off = idxNext)
       /\ idxNext' = Ev.off + Ev.len
       /\ st' = "index" /\ Adv /\ UNCHANGED <<sid, end, sub, hw>>
HdrA == /\ st = "index" /\ Ev.call = "finalize" /\ Ev.wkind = "v2header-characteristics" /\ Ev.off = 11 /\ Ev.len = 16
        /\ st' = "hdrA" /\ Adv /\ UNCHANGED <<sid, end, sub, idxNext, hw>>
HdrB == /\ st = "hdrA" /\ Ev.call = "finalize" /\ Ev.wkind = "v2header-offsets" /\ Ev.off = 27 /\ Ev.len = 24
        /\ st' = "final" /\ Adv /\ UNCHANGED <<sid, end, sub, idxNext, hw>>

Step == l <= Len(Trace) /\ (Reset \/ (Ev.sid = sid /\ (Pragma \/ V1Header \/ Trunc \/ ZeroA \/ ZeroB \/ TruncEnd \/ Sec \/ Idx \/ HdrA \/ HdrB)))
Spec == Init /\ [][Step]_vars

(* design-level safety of the protocol *)
HeaderAfterIndex == st \in {"hdrA", "final"} => idxNext >= 0
NothingAfterFinal == [][st = "final" => (st' = "final" \/ st' = "fresh")]_vars

Accepted == l > Len(Trace)
Progress == (~Accepted /\ ~ENABLED Step) => PrintT(<<"STUCK", l>>)
DoneP    == Accepted => PrintT(<<"ACCEPTED", Len(Trace)>>)
=============================================================================
