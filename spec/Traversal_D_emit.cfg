CONSTANTS
  Nodes <- Nodes4
  MaxKids = 3
  Alias = FALSE
  Options <- DOpts
SPECIFICATION Spec
CHECK_DEADLOCK FALSE
INVARIANT Emit
