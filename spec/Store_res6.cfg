CONSTANTS
  OptSet <- ResOptsT
  RootSets <- ResRoots
  PutIds <- ResPutIds
  ManyArgs <- ResMany
  ProbeIds <- ResProbes
  MaxSecs = 4
SPECIFICATION Spec
INVARIANTS TypeOK NoDupKeys NoIdent NoOversize PutVisible FinOnlyV2 LayoutOK
PROPERTIES AppendOnly ClosedFrozen Typestate RoNoWrites OptsFixed
CHECK_DEADLOCK FALSE
