SPECIFICATION Spec
INVARIANTS HeaderAfterIndex Progress DoneP
PROPERTY NothingAfterFinal
CHECK_DEADLOCK FALSE
