CONSTANTS
  Entries <- SEntries
  DirNames <- SDirNames
  MaxTop = 3
  MaxChild = 1
  PreStates <- SPre
  GuardFinal = TRUE
  FileRoots = FALSE
  MatchPaths <- NoMatch
SPECIFICATION Spec
CHECK_DEADLOCK FALSE
INVARIANT Emit
