SPECIFICATION Spec
INVARIANTS Check Done
CHECK_DEADLOCK FALSE
